//! C16 — the server-side SASL handshake authenticates exactly the right peers.
//!
//! Bounded exhaustive history tree over a client line alphabet, every transcript executed on the
//! real server handshake (`connection::Builder::socket(..).server(guid).p2p().build()` over a
//! scripted socket) and compared line by line with the reference server machine of `refsasl`.
//! No state merging: a prefix is extended exactly when the real handshake is still waiting for
//! input after it (and the reference could follow what the implementation did).

use std::{
    collections::{BTreeMap, BTreeSet},
    sync::Mutex,
};

use serde_json::{json, Value};
use vcommon::{catch, enumerate, hash64, par_for, Args, Report, Violation};
use zbus::{connection::Builder, AuthMechanism, Connection};

use crate::{
    refsasl::{
        classify_server_reply, hex_of, Alt, Expectation, Mech, Next, Reply, SState, ServerCfg, ServerRef,
        CL_COMPLETES, CL_EXTERNAL, CL_PANIC, CL_SPLIT,
    },
    world::{Link, SockCfg, World, GUID},
};

const UID: u32 = 1000;
const OTHER_UID: u32 = 1001;

#[derive(Clone, Copy, Debug, PartialEq, Eq, Hash)]
struct Cfg {
    mech: Mech,
    uid: Option<u32>,
    fd: bool,
    /// The stream starts with the mandatory NUL byte.
    nul: bool,
}

impl Cfg {
    fn json(&self) -> Value {
        json!({"mech": self.mech.name(), "uid": self.uid, "fd": self.fd, "nul": self.nul})
    }
    fn from_json(v: &Value) -> Cfg {
        Cfg {
            mech: Mech::parse(v["mech"].as_str().unwrap_or("EXTERNAL")).unwrap_or(Mech::External),
            uid: v["uid"].as_u64().map(|u| u as u32),
            fd: v["fd"].as_bool().unwrap_or(true),
            nul: v["nul"].as_bool().unwrap_or(true),
        }
    }
    fn server_cfg(&self) -> ServerCfg {
        ServerCfg {
            mech: self.mech,
            peer_uid: self.uid,
            can_pass_fd: self.fd,
        }
    }
}

/// The client line alphabet (raw bytes including the line terminator).
fn alphabet() -> Vec<Vec<u8>> {
    let uid = hex_of(&UID.to_string());
    let other = hex_of(&OTHER_UID.to_string());
    let nonnum = hex_of("root");
    let mut a: Vec<String> = vec![
        "AUTH".into(),
        "AUTH EXTERNAL".into(),
        format!("AUTH EXTERNAL {uid}"),
        format!("AUTH EXTERNAL {other}"),
        format!("AUTH EXTERNAL {nonnum}"),
        "AUTH EXTERNAL 313".into(), // odd number of hex digits
        // identities that only resemble the peer's: the uid is a proper prefix of the claim, the
        // claim a proper prefix of the uid, the uid followed by a space
        format!("AUTH EXTERNAL {}", hex_of(&format!("{UID}1"))),
        format!("AUTH EXTERNAL {}", hex_of(&UID.to_string()[..3])),
        format!("AUTH EXTERNAL {}", hex_of(&format!("{UID} "))),
        "AUTH ANONYMOUS".into(),
        format!("AUTH ANONYMOUS {}", hex_of("zbus")),
        "AUTH FOO".into(),
        "DATA".into(),
        format!("DATA {uid}"),
        format!("DATA {other}"),
        "DATA 3g".into(), // not hex
        "BEGIN".into(),
        "CANCEL".into(),
        "ERROR x".into(),
        "NEGOTIATE_UNIX_FD".into(),
        "FOO".into(),
        "begin".into(), // commands are case-sensitive
        "".into(),
    ]
    .into_iter()
    .map(|s| s + "\r\n")
    .collect();
    // stray line endings: LF without CR
    a.push("\n".into());
    a.push("BEGIN\n".into());
    a.push("AUTH\n".into());
    a.into_iter().map(String::into_bytes).collect()
}

#[derive(Clone, Debug, PartialEq, Eq)]
enum Status {
    /// build() has not returned and nothing is runnable: the handshake waits for input.
    Waiting,
    Authenticated,
    Aborted(String),
    Panic(String),
}

impl Status {
    fn class(&self) -> &'static str {
        match self {
            Status::Waiting => "waiting",
            Status::Authenticated => "authenticated",
            Status::Aborted(_) => "aborted",
            Status::Panic(_) => "panic",
        }
    }
    fn terminated(&self) -> bool {
        !matches!(self, Status::Waiting)
    }
}

#[derive(Clone, Debug)]
struct StepObs {
    /// What the server wrote after this chunk was delivered.
    reply: Vec<u8>,
    status: Status,
}

/// Execute the real server handshake on a fresh world: deliver `chunks` one by one, running the
/// world to quiescence after each. Stops delivering once the handshake has terminated.
fn execute(cfg: &Cfg, chunks: &[&[u8]]) -> Vec<StepObs> {
    let mut w = World::new();
    let link = Link::new();
    let mechanism = match cfg.mech {
        Mech::External => AuthMechanism::External,
        Mech::Anonymous => AuthMechanism::Anonymous,
    };
    let sock = link.end_a(SockCfg {
        uid: cfg.uid,
        can_pass_fd: cfg.fd,
        mechanism,
    });
    let mut h = w.spawn("server-build", async move {
        Builder::socket(sock)
            .server(GUID)
            .unwrap()
            .p2p()
            .auth_mechanism(mechanism)
            .internal_executor(false)
            .build()
            .await
    });
    let mut out = Vec::with_capacity(chunks.len());
    let mut seen = 0usize;
    let mut conn: Option<Connection> = None;
    let mut status = Status::Waiting;
    match catch(|| w.settle()) {
        Err(p) => status = Status::Panic(format!("{p} at {}", vcommon::last_panic_location())),
        Ok(()) => {
            if let Some(r) = h.take() {
                // terminated without reading anything
                match r {
                    Ok(c) => {
                        conn = Some(c);
                        status = Status::Authenticated;
                    }
                    Err(e) => status = Status::Aborted(e.to_string()),
                }
            }
        }
    }
    if status.terminated() && !chunks.is_empty() {
        // Attribute a termination before any input to the first chunk, so that it is judged.
        let all = link.a2b.written();
        seen = all.len();
        out.push(StepObs {
            reply: all,
            status: status.clone(),
        });
    }
    for c in chunks {
        if status.terminated() {
            break;
        }
        link.b2a.push(c, vec![]);
        match catch(|| w.settle()) {
            Err(p) => status = Status::Panic(format!("{p} at {}", vcommon::last_panic_location())),
            Ok(()) => {
                if let Some(r) = h.take() {
                    match r {
                        Ok(c) => {
                            conn = Some(c);
                            status = Status::Authenticated;
                        }
                        Err(e) => status = Status::Aborted(e.to_string()),
                    }
                }
            }
        }
        let all = link.a2b.written();
        out.push(StepObs {
            reply: all[seen..].to_vec(),
            status: status.clone(),
        });
        seen = all.len();
    }
    // Tear down without leaking: a task parked on a channel waker would otherwise keep its future
    // (and through it the channel) alive in a reference cycle.
    drop(conn);
    h.cancel();
    drop(h);
    drop(w);
    for ch in [&link.a2b, &link.b2a] {
        let (a, b) = ch.with(|c| (c.read_waker.take(), c.write_waker.take()));
        drop(a);
        drop(b);
    }
    out
}

fn show(bytes: &[u8]) -> String {
    let mut s = String::new();
    for b in bytes {
        match b {
            b'\r' => s.push_str("\\r"),
            b'\n' => s.push_str("\\n"),
            0 => s.push_str("\\0"),
            0x20..=0x7e => s.push(*b as char),
            _ => s.push_str(&format!("\\x{b:02x}")),
        }
    }
    s
}

fn show_lines(lines: &[&[u8]]) -> String {
    lines.iter().map(|l| format!("\"{}\"", show(l))).collect::<Vec<_>>().join(" ")
}

#[derive(Clone)]
struct Taint {
    clause: &'static str,
    features: BTreeMap<String, String>,
}

struct Judgement {
    /// Violations found at the LAST line of the transcript (earlier lines are judged at their own
    /// tree node).
    violations: Vec<Violation>,
    /// The history may be extended below this transcript.
    live: bool,
    /// (reference state / terminal, observation) keys reached along the transcript.
    state_keys: Vec<u64>,
    /// Tolerated deviation taken at the last line, if any.
    tolerated: Option<String>,
    outcome: String,
}

fn observed_name(reply: &Result<Reply, String>, status: &Status) -> String {
    let r = match reply {
        Ok(r) => r.to_string(),
        Err(_) => "malformed-reply".to_string(),
    };
    match status {
        Status::Waiting => r,
        Status::Authenticated => "authenticated".into(),
        Status::Aborted(_) => {
            if matches!(reply, Ok(Reply::None)) {
                "aborted".into()
            } else {
                format!("aborted-after-{r}")
            }
        }
        Status::Panic(_) => "panic".into(),
    }
}

fn alt_matches(a: &Alt, reply: Reply, status: &Status) -> bool {
    a.reply == reply
        && match (a.next, status) {
            (Next::To(_) | Next::Undefined, Status::Waiting) => true,
            (Next::Authenticated, Status::Authenticated) => true,
            (Next::Disconnect, Status::Aborted(_)) => true,
            _ => false,
        }
}

fn base_features(v: Violation, cfg: &Cfg, state: SState, exp: &Expectation, observed: &str) -> Violation {
    let mut v = v
        .feat("mechanism", cfg.mech.name())
        .feat("credentials", if cfg.uid.is_some() { "known" } else { "unknown" })
        .feat("leading_nul", cfg.nul)
        .feat("state", state.short())
        .feat("line_class", &exp.line_class)
        .feat("expected", exp.alts[0].reply.to_string() + match exp.alts[0].next {
            Next::Authenticated => "+authenticated",
            Next::Disconnect => "+disconnect",
            _ => "",
        })
        .feat("observed", observed);
    if let Some(i) = exp.identity {
        v = v.feat("identity", i);
    }
    v
}

/// Features that describe the input line itself.
fn line_features(v: Violation, line: &[u8]) -> Violation {
    let (_, content) = crate::refsasl::split_ending(line);
    let v = v.feat("line", show(line));
    match crate::refsasl::parse_client_line(content) {
        crate::refsasl::ClientLine::Auth { mech, .. } => v.feat(
            "requested_mechanism",
            match mech.as_deref() {
                None => "none",
                Some(m) if Mech::parse(m).is_some() => "known-name",
                Some(_) => "unknown-name",
            },
        ),
        _ => v,
    }
}

/// Compare the observations of a line-by-line execution with the reference machine.
fn judge(cfg: &Cfg, lines: &[&[u8]], obs: &[StepObs], replay: &Value) -> Judgement {
    let mut r = ServerRef::new(cfg.server_cfg());
    let mut taint: Option<Taint> = None;
    let mut j = Judgement {
        violations: vec![],
        live: true,
        state_keys: vec![],
        tolerated: None,
        outcome: String::new(),
    };
    for (i, line) in lines.iter().enumerate() {
        let last = i + 1 == lines.len();
        let Some(o) = obs.get(i) else {
            // the handshake terminated before this line: cannot happen for tree nodes
            j.live = false;
            break;
        };
        let state = r.state;
        let exp = r.expect(line);
        let reply = classify_server_reply(&o.reply, GUID);
        let observed = observed_name(&reply, &o.status);
        j.outcome = format!("{}:{}", exp.line_class.split(':').next().unwrap_or(""), observed);
        let ctx = |what: &str| {
            format!(
                "{} creds={} fd={} nul={}: after {} in state {} the line \"{}\" {what}; server wrote \"{}\", status {:?}",
                cfg.mech.name(),
                if cfg.uid.is_some() { "known" } else { "unknown" },
                cfg.fd,
                cfg.nul,
                show_lines(&lines[..i]),
                state.short(),
                show(line),
                show(&o.reply),
                o.status
            )
        };
        let mut viol: Option<Violation> = None;
        let mut next_live = false;
        let after_key: String;

        if !cfg.nul && i == 0 {
            // Without the leading NUL the conversation must not succeed; everything else a server
            // does with such a stream is left open and the history is not extended.
            match &o.status {
                Status::Panic(p) => {
                    viol = Some(base_features(
                        Violation::new(CL_PANIC, ctx(&format!("made the server panic: {p}")), replay.clone()),
                        cfg, state, &exp, "panic",
                    ));
                }
                Status::Authenticated => {
                    viol = Some(base_features(
                        Violation::new(CL_COMPLETES, ctx("completed the handshake without the leading NUL"), replay.clone()),
                        cfg, state, &exp, "authenticated",
                    ));
                }
                _ => {}
            }
            after_key = "no-nul".into();
        } else if let Status::Panic(p) = &o.status {
            viol = Some(base_features(
                Violation::new(CL_PANIC, ctx(&format!("made the server panic: {p}")), replay.clone()),
                cfg, state, &exp, "panic",
            ));
            after_key = "panic".into();
        } else {
            let hit = match &reply {
                Ok(rep) => exp.alts.iter().position(|a| alt_matches(a, *rep, &o.status)),
                Err(_) => None,
            };
            match hit {
                Some(k) => {
                    let a = exp.alts[k];
                    if k > 0 && last {
                        j.tolerated = Some(format!(
                            "{} in {}: spec {}{}, implementation {}",
                            exp.line_class,
                            state.short(),
                            exp.alts[0].reply,
                            if exp.alts[0].next == Next::Disconnect { "+disconnect" } else { "" },
                            observed
                        ));
                    }
                    if a.next == Next::Authenticated {
                        if let Some(t) = &taint {
                            // completion that rests on an OK the reference did not grant
                            let mut v = Violation::new(
                                t.clause,
                                ctx("completed the handshake (build() returned a connection) although the preceding OK was not legitimate"),
                                replay.clone(),
                            );
                            v.features = t.features.clone();
                            viol = Some(v.feat("stage", "completed"));
                        }
                    }
                    r.advance(&a);
                    next_live = matches!(a.next, Next::To(_));
                    after_key = match a.next {
                        Next::To(s) => s.short().to_string(),
                        Next::Authenticated => "authenticated".into(),
                        Next::Disconnect => "disconnected".into(),
                        Next::Undefined => "undefined".into(),
                    };
                }
                None => {
                    if matches!(reply, Ok(Reply::Ok)) && o.status == Status::Waiting {
                        // An OK the reference does not grant. Record it and follow the
                        // implementation so that the completed handshake is witnessed as well.
                        let clause = if exp.identity.is_some() { CL_EXTERNAL } else { CL_COMPLETES };
                        let v = base_features(
                            Violation::new(clause, ctx("was answered OK although the reference does not accept it"), replay.clone()),
                            cfg, state, &exp, &observed,
                        );
                        taint = Some(Taint {
                            clause,
                            features: v.features.clone(),
                        });
                        viol = Some(v.feat("stage", "ok-reply"));
                        r.state = SState::WaitingForBegin;
                        next_live = true;
                        after_key = "illegitimate-WaitingForBegin".into();
                    } else if o.status == Status::Authenticated {
                        viol = Some(base_features(
                            Violation::new(CL_COMPLETES, ctx("completed the handshake (build() returned a connection)"), replay.clone()),
                            cfg, state, &exp, &observed,
                        ));
                        after_key = "authenticated".into();
                    } else {
                        let what = match &reply {
                            Err(d) => format!("got a malformed reply ({d})"),
                            Ok(_) => format!(
                                "expected {}{}, observed {}",
                                exp.alts[0].reply,
                                match exp.alts[0].next {
                                    Next::Authenticated => " and completion",
                                    Next::Disconnect => " and disconnect",
                                    _ => " and the conversation to continue",
                                },
                                observed
                            ),
                        };
                        viol = Some(base_features(
                            Violation::new(exp.clause, ctx(&what), replay.clone()),
                            cfg, state, &exp, &observed,
                        ));
                        after_key = format!("diverged:{observed}");
                    }
                }
            }
        }
        j.state_keys.push(hash64(&(state.short(), taint.is_some(), &exp.line_class, &observed, &after_key)));
        j.live = next_live;
        if last {
            if let Some(v) = viol {
                j.violations.push(line_features(v, line));
            }
        }
        if !next_live {
            break;
        }
    }
    j
}

fn lines_of<'a>(alpha: &'a [Vec<u8>], syms: &[u8]) -> Vec<&'a [u8]> {
    syms.iter().map(|s| alpha[*s as usize].as_slice()).collect()
}

/// Line-by-line chunks: the NUL travels with the first line.
fn line_chunks(cfg: &Cfg, lines: &[&[u8]]) -> Vec<Vec<u8>> {
    let mut out = vec![];
    for (i, l) in lines.iter().enumerate() {
        let mut c = vec![];
        if i == 0 && cfg.nul {
            c.push(0u8);
        }
        c.extend_from_slice(l);
        out.push(c);
    }
    out
}

fn replay_payload(cfg: &Cfg, lines: &[&[u8]], chunks: Option<&[usize]>) -> Value {
    json!({
        "cfg": cfg.json(),
        "lines": lines.iter().map(|l| String::from_utf8_lossy(l).into_owned()).collect::<Vec<_>>(),
        "chunk_sizes": chunks,
    })
}

/// Final (status, everything written) of an execution.
fn summary(obs: &[StepObs]) -> (Status, Vec<u8>) {
    let mut w = vec![];
    for o in obs {
        w.extend_from_slice(&o.reply);
    }
    (obs.last().map(|o| o.status.clone()).unwrap_or(Status::Waiting), w)
}

fn run_split(cfg: &Cfg, stream: &[u8], sizes: &[usize]) -> (Status, Vec<u8>) {
    let mut chunks: Vec<&[u8]> = vec![];
    let mut pos = 0;
    for s in sizes {
        chunks.push(&stream[pos..pos + s]);
        pos += s;
    }
    summary(&execute(cfg, &chunks))
}

struct Counters {
    executions: u64,
    lines_fed: u64,
    split_runs: u64,
}

pub fn main(args: &Args) -> i32 {
    if let Some(p) = &args.replay {
        return replay(p);
    }
    let report = Report::new("C16", args.tier, args.seed, "model_checking");
    let alpha = alphabet();
    let k = alpha.len();
    let max_len: usize = std::env::var("VERIF_C16_MAXLEN")
        .ok()
        .and_then(|s| s.parse().ok())
        .unwrap_or(args.tier.pick(3, 4));
    let split_len: usize = 2;

    let mut cfgs = vec![];
    for mech in [Mech::External, Mech::Anonymous] {
        for uid in [Some(UID), None] {
            for fd in [true, false] {
                cfgs.push(Cfg { mech, uid, fd, nul: true });
            }
        }
    }
    // streams that lack the leading NUL byte (one line deep: the continuation has no meaning)
    for mech in [Mech::External, Mech::Anonymous] {
        cfgs.push(Cfg { mech, uid: Some(UID), fd: true, nul: false });
    }

    let counters = Mutex::new(Counters { executions: 0, lines_fed: 0, split_runs: 0 });
    let states: Mutex<BTreeSet<u64>> = Mutex::new(BTreeSet::new());
    let tolerated: Mutex<BTreeMap<String, u64>> = Mutex::new(BTreeMap::new());
    let per_depth: Mutex<BTreeMap<usize, (u64, u64)>> = Mutex::new(BTreeMap::new());
    let vsummary: Mutex<BTreeMap<String, u64>> = Mutex::new(BTreeMap::new());

    for cfg in &cfgs {
        let depth_limit = if cfg.nul { max_len } else { 1 };
        // the empty transcript: the server must simply wait
        {
            let obs = execute(cfg, &[]);
            report.eval(1);
            counters.lock().unwrap().executions += 1;
            if !obs.is_empty() {
                vcommon::machinery_failure("C16: empty transcript produced observations");
            }
        }
        let mut frontier: Vec<Vec<u8>> = vec![vec![]];
        for depth in 1..=depth_limit {
            let n = frontier.len() * k;
            let next: Mutex<Vec<(usize, Vec<u8>)>> = Mutex::new(vec![]);
            par_for(n, 16, |idx| {
                let mut syms = frontier[idx / k].clone();
                syms.push((idx % k) as u8);
                let lines = lines_of(&alpha, &syms);
                let chunks = line_chunks(cfg, &lines);
                let chunk_refs: Vec<&[u8]> = chunks.iter().map(|c| c.as_slice()).collect();
                let obs = execute(cfg, &chunk_refs);
                let payload = replay_payload(cfg, &lines, None);
                if obs.len() != lines.len() {
                    vcommon::machinery_failure(&format!(
                        "C16: harness nondeterminism: prefix of {} was live but terminated on re-execution",
                        show_lines(&lines)
                    ));
                }
                let j = judge(cfg, &lines, &obs, &payload);
                report.eval(1);
                report.outcome(&j.outcome);
                let (status, written) = summary(&obs);
                if !written.is_empty() || status == Status::Authenticated {
                    report.nontrivial(hash64(&(cfg, &syms)));
                }
                if let Some(t) = &j.tolerated {
                    *tolerated.lock().unwrap().entry(t.clone()).or_insert(0) += 1;
                }
                states.lock().unwrap().extend(j.state_keys.iter().cloned());
                if idx % 997 == 0 && depth >= 2 {
                    report.sample(json!({
                        "cfg": cfg.json(),
                        "lines": lines.iter().map(|l| show(l)).collect::<Vec<_>>(),
                        "replies": obs.iter().map(|o| show(&o.reply)).collect::<Vec<_>>(),
                        "status": format!("{:?}", status),
                    }));
                }
                for v in j.violations {
                    let mut f = v.features.clone();
                    for k in ["mechanism", "state", "leading_nul", "expected", "line"] {
                        f.remove(k);
                    }
                    *vsummary.lock().unwrap().entry(format!("{} {:?}", v.clause, f)).or_insert(0) += 1;
                    report.violation(v);
                }
                if j.live && depth < depth_limit {
                    next.lock().unwrap().push((idx, syms.clone()));
                }

                // ---- read splits: the result must not depend on them ----
                let stream: Vec<u8> = chunks.concat();
                let mut local_runs = 1u64;
                let mut local_split = 0u64;
                let mut check = |sizes: &[usize]| {
                    let (s2, w2) = run_split(cfg, &stream, sizes);
                    local_runs += 1;
                    local_split += 1;
                    report.eval(1);
                    if s2 != status || w2 != written {
                        let kind = if matches!(s2, Status::Panic(_)) && !matches!(status, Status::Panic(_)) {
                            "panic-only-when-split"
                        } else {
                            "different-result"
                        };
                        report.violation(
                            Violation::new(
                                CL_SPLIT,
                                format!(
                                    "{} creds={} fd={} nul={}: transcript {} delivered line by line gives {:?} / \"{}\", delivered in chunks {:?} gives {:?} / \"{}\"",
                                    cfg.mech.name(), if cfg.uid.is_some() { "known" } else { "unknown" }, cfg.fd, cfg.nul,
                                    show_lines(&lines), status, show(&written), sizes, s2, show(&w2)
                                ),
                                replay_payload(cfg, &lines, Some(sizes)),
                            )
                            .feat("mechanism", cfg.mech.name())
                            .feat("kind", kind)
                            .feat("line_by_line", status.class())
                            .feat("split", s2.class()),
                        );
                    }
                };
                // all at once, byte at a time
                check(&[stream.len()]);
                check(&vec![1usize; stream.len()]);
                if syms.len() <= split_len {
                    for cuts in enumerate::cuts(stream.len(), 2) {
                        if cuts.is_empty() {
                            continue;
                        }
                        check(&enumerate::chunks_from_cuts(stream.len(), &cuts));
                    }
                }
                let mut c = counters.lock().unwrap();
                c.executions += local_runs;
                c.split_runs += local_split;
                c.lines_fed += lines.len() as u64;
                drop(c);
                let mut pd = per_depth.lock().unwrap();
                let e = pd.entry(depth).or_insert((0, 0));
                e.0 += 1;
                if j.live {
                    e.1 += 1;
                }
            });
            let mut nx = next.into_inner().unwrap();
            nx.sort();
            frontier = nx.into_iter().map(|(_, s)| s).collect();
            if frontier.is_empty() {
                break;
            }
        }
    }

    let c = counters.into_inner().unwrap();
    let n_states = states.lock().unwrap().len();
    report.set("states", json!(n_states.max(1)));
    report.set("transitions", json!(c.lines_fed.max(1)));
    report.set("traces_validated_against_impl", json!(c.executions));
    report.set("split_executions", json!(c.split_runs));
    report.set(
        "states_meaning",
        json!("distinct (reference state, line class, observed reply/status, reference state after) tuples; informational, no merging is done"),
    );
    report.set("alphabet", json!(alpha.iter().map(|l| show(l)).collect::<Vec<_>>()));
    report.set("max_transcript_length", json!(max_len));
    report.set("configurations", json!(cfgs.iter().map(|c| c.json()).collect::<Vec<_>>()));
    report.set(
        "tree_nodes_per_depth",
        json!(per_depth
            .lock()
            .unwrap()
            .iter()
            .map(|(d, (n, live))| json!({"depth": d, "transcripts": n, "still_waiting": live}))
            .collect::<Vec<_>>()),
    );
    report.set(
        "tolerated_spec_deviations",
        json!(tolerated
            .lock()
            .unwrap()
            .iter()
            .map(|(k, n)| json!({"what": k, "transcripts": n}))
            .collect::<Vec<_>>()),
    );
    report.set(
        "violating_transcripts_by_identity",
        json!(vsummary.lock().unwrap().iter().map(|(k, n)| json!({"identity": k, "transcripts": n})).collect::<Vec<_>>()),
    );
    report.assume("the scripted socket reports peer credentials / fd capability exactly as configured (SockCfg)");
    report.assume("World::settle() reaching quiescence with build() unfinished means the handshake waits for input (writes never block on the scripted socket)");
    report.assume("reference server machine (refsasl) written from the D-Bus specification; where the property is silent the specification's reply is not enforced (listed under tolerated_spec_deviations)");
    report.finish(
        "history tree: all sequences of client lines over the alphabet up to max_transcript_length per configuration \
         (mechanism x peer uid known/unknown x fd-capable, plus NUL-less streams one line deep), extended only below \
         prefixes after which the real handshake still waits for input; every transcript is executed line by line, \
         all at once and byte at a time, and with every 1- and 2-cut split when it has <= 2 lines. \
         non-trivial = the server wrote at least one reply or authenticated",
        true,
    )
}

fn replay(path: &str) -> i32 {
    let art = vcommon::load_replay(path);
    let rp = &art["replay"];
    let cfg = Cfg::from_json(&rp["cfg"]);
    let lines_owned: Vec<Vec<u8>> = rp["lines"]
        .as_array()
        .map(|a| a.iter().map(|l| l.as_str().unwrap_or("").as_bytes().to_vec()).collect())
        .unwrap_or_default();
    let lines: Vec<&[u8]> = lines_owned.iter().map(|l| l.as_slice()).collect();
    println!("C16 replay: cfg={} clause={}", cfg.json(), art["clause"]);
    let chunks = line_chunks(&cfg, &lines);
    let chunk_refs: Vec<&[u8]> = chunks.iter().map(|c| c.as_slice()).collect();
    let obs = execute(&cfg, &chunk_refs);
    let mut r = ServerRef::new(cfg.server_cfg());
    for (i, l) in lines.iter().enumerate() {
        let exp = r.expect(l);
        let alts: Vec<String> = exp
            .alts
            .iter()
            .map(|a| format!("{}→{:?}", a.reply, a.next))
            .collect();
        match obs.get(i) {
            Some(o) => {
                println!(
                    "  line {i} \"{}\" [{} in {}]: server wrote \"{}\", status {:?}; reference allows [{}]",
                    show(l),
                    exp.line_class,
                    r.state.short(),
                    show(&o.reply),
                    o.status,
                    alts.join(", ")
                );
                if let Ok(rep) = classify_server_reply(&o.reply, GUID) {
                    if let Some(a) = exp.alts.iter().find(|a| alt_matches(a, rep, &o.status)) {
                        r.advance(a);
                    } else if rep == Reply::Ok {
                        r.state = SState::WaitingForBegin;
                    }
                }
            }
            None => println!("  line {i} \"{}\": not delivered (handshake already terminated)", show(l)),
        }
    }
    let payload = replay_payload(&cfg, &lines, None);
    let j = judge(&cfg, &lines, &obs, &payload);
    let mut bad = !j.violations.is_empty();
    for v in &j.violations {
        println!("  violation: clause={} features={:?}", v.clause, v.features);
    }
    if let Some(sizes) = rp["chunk_sizes"].as_array() {
        let sizes: Vec<usize> = sizes.iter().map(|s| s.as_u64().unwrap_or(1) as usize).collect();
        let stream: Vec<u8> = chunks.concat();
        let (s1, w1) = summary(&obs);
        let (s2, w2) = run_split(&cfg, &stream, &sizes);
        println!("  line by line: {:?} wrote \"{}\"", s1, show(&w1));
        println!("  chunks {:?}: {:?} wrote \"{}\"", sizes, s2, show(&w2));
        if s1 != s2 || w1 != w2 {
            println!("  violation: clause={CL_SPLIT}");
            bad = true;
        }
    }
    println!("C16 replay: {}", if bad { "REPRODUCED" } else { "not reproduced" });
    if bad {
        1
    } else {
        0
    }
}
