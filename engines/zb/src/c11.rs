//! C11 — not built yet.
use vcommon::Args;

pub fn main(_args: &Args) -> i32 {
    vcommon::machinery_failure("C11: check not built yet")
}
