//! C11 — built messages parse back to the same header and body.
//!
//! Space: 4 message types × every subset of the optional header fields the builder lets one set
//! for the type (one value each, two for path/destination; thorough: two for every field) ×
//! all 8 flag subsets (the ones the builder refuses are an expected outcome class) × both byte
//! orders (`Builder::endian`, and inherited through `reply_to` for replies) × the body corpus
//! (unit, basic, string, padded struct, arrays, dict, variant, nested, one fd, two fds; bodies
//! that have a statically typed twin are built through both routes) × automatic / explicit
//! serial × two builder routes (the `Message::*` constructors, and `Builder::from(Header)`).
//!
//! Oracle (reference model = `refmsg`, written from the message format, no zvariant):
//!   header-array-valid   the header is a strictly valid fixed part + `a(yv)` + zero padding
//!   fields-as-set        the entries, as a set, are exactly the logical fields with the
//!                        prescribed value types (no duplicates, nothing extra, nothing missing)
//!   header-bytes-exact   re-encoding by the reference in the observed field order gives the
//!                        same bytes (fixed part, array length, element padding, body padding)
//!   body-length-declared declared body length == bytes after the 8-aligned body offset
//!   unix-fds-declared    UNIX_FDS (absent = 0) == fds attached == `h` leaves in the body
//!   body-decodes         the body bytes decode (reference decoder) to the body value
//!   reparse-equal        `Message::from_bytes(data)` gives equal type, serial, flags, every
//!                        field, signature and body value (also compared with the logical case)

use std::{
    num::NonZeroU32,
    os::fd::{AsFd, OwnedFd},
    sync::OnceLock,
};

use serde::{Deserialize, Serialize};
use serde_json::json;
use vcommon::{catch, hash64, hex, par_for, Args, Report, Tier, Violation};
use zbus::{
    message::{Builder, Flags},
    zvariant::{
        serialized::{Context, Data},
        Endian,
    },
    Message,
};

use crate::refmsg::{self as rm, o, s, var, Ty, RV};

// ---------------------------------------------------------------------------------------------
// body corpus
// ---------------------------------------------------------------------------------------------

#[derive(Clone, Copy, Debug, PartialEq)]
pub enum Typed {
    U32,
    Str,
    ByteU64,
    VecI32,
    StructArg,
    EmptyVecU64,
}

pub struct BodyDef {
    pub name: &'static str,
    pub args: Vec<RV>,
    pub typed: Option<Typed>,
}

pub fn bodies(tier: Tier) -> Vec<BodyDef> {
    let b = |name, args, typed| BodyDef { name, args, typed };
    let mut v = vec![
        b("unit", vec![], None),
        b("u32", vec![RV::U(7)], Some(Typed::U32)),
        b("string", vec![s("hello")], Some(Typed::Str)),
        b("byte-then-u64", vec![RV::Y(1), RV::T(2)], Some(Typed::ByteU64)),
        b(
            "one-struct-arg",
            vec![RV::Struct(vec![RV::Y(1), RV::T(2)])],
            Some(Typed::StructArg),
        ),
        b(
            "array-i32",
            vec![RV::Array(Ty::I, vec![RV::I(1), RV::I(-2), RV::I(3)])],
            Some(Typed::VecI32),
        ),
        b("empty-array-u64", vec![RV::Array(Ty::T, vec![])], Some(Typed::EmptyVecU64)),
        b(
            "dict-sv",
            vec![RV::Dict(
                Ty::S,
                Ty::V,
                vec![(s("k"), var(RV::U(1))), (s("key2"), var(s("v")))],
            )],
            None,
        ),
        b("variant", vec![var(s("x")), var(RV::T(9))], None),
        b(
            "nested",
            vec![
                RV::Y(9),
                RV::Struct(vec![
                    RV::Array(
                        Ty::Struct(vec![Ty::Y, Ty::V]),
                        vec![RV::Struct(vec![RV::Y(1), var(o("/p"))])],
                    ),
                    RV::Struct(vec![
                        s("é/€"),
                        RV::Dict(Ty::U, Ty::Array(Box::new(Ty::S)), vec![(RV::U(5), RV::Array(Ty::S, vec![s("")]))]),
                    ]),
                ]),
                RV::D(1.5f64.to_bits()),
            ],
            None,
        ),
        b("one-fd", vec![RV::H(0)], None),
        b("string-and-fd", vec![s("f"), RV::H(1)], None),
        b("two-fds", vec![RV::H(0), RV::H(1)], None),
        b("array-of-fds", vec![RV::Array(Ty::H, vec![RV::H(1), RV::H(0)]), RV::Y(1)], None),
    ];
    if tier == Tier::Thorough {
        v.push(b("bool-i16", vec![RV::B(true), RV::N(-1)], None));
        v.push(b("same-fd-twice", vec![RV::H(0), RV::H(0)], None));
        v.push(b("fd-in-variant", vec![var(RV::H(1))], None));
        v.push(b("sig-and-path", vec![rm::g("a{sv}"), o("/a/b")], None));
        v.push(b("empty-string", vec![s("")], None));
        v.push(b(
            "array-of-struct",
            vec![RV::Array(
                Ty::Struct(vec![Ty::Y, Ty::T]),
                vec![RV::Struct(vec![RV::Y(1), RV::T(1)]), RV::Struct(vec![RV::Y(2), RV::T(2)])],
            )],
            None,
        ));
    }
    v
}

/// The case's fd table: two distinct anonymous files shared by all cases (zbus dups them).
pub fn fd_table() -> &'static [OwnedFd] {
    static T: OnceLock<Vec<OwnedFd>> = OnceLock::new();
    T.get_or_init(|| vec![crate::world::new_fd("c11-fd0"), crate::world::new_fd("c11-fd1")])
}

fn table_inodes() -> &'static [u64] {
    static T: OnceLock<Vec<u64>> = OnceLock::new();
    T.get_or_init(|| fd_table().iter().map(|f| crate::world::inode_of(f)).collect())
}

fn fd_index_of_raw(raw: i32) -> u32 {
    let ino = crate::world::inode_of(&raw);
    table_inodes()
        .iter()
        .position(|i| *i == ino)
        .map(|p| p as u32)
        .unwrap_or(u32::MAX)
}

// ---------------------------------------------------------------------------------------------
// cases
// ---------------------------------------------------------------------------------------------

#[derive(Clone, Debug, Serialize, Deserialize, Hash, PartialEq)]
pub struct Case {
    pub mtype: u8,
    pub be: bool,
    pub flags: u8,
    /// explicit serial (`Builder::serial`) or the library's counter
    pub serial: Option<u32>,
    pub path: Option<String>,
    pub interface: Option<String>,
    pub member: Option<String>,
    pub error_name: Option<String>,
    /// calls/signals: `reply_serial(Some(x))` when Some. replies: the serial of the call replied to.
    pub reply_serial: Option<u32>,
    /// replies only: 0 = keep the inherited reply serial, 1 = remove it with `reply_serial(None)`
    pub reply_serial_removed: bool,
    pub destination: Option<String>,
    /// replies only: destination inherited from the call's sender instead of `destination()`
    pub dest_inherited: bool,
    pub sender: Option<String>,
    pub body: usize,
    pub typed: bool,
    /// 0 = `Message::method_call/signal/method_return/error`, 1 = additionally rebuilt through
    /// `Builder::from(header)`
    pub route: u8,
}

impl Case {
    pub fn expected_fields(&self, body: &BodyDef) -> Vec<(u8, RV)> {
        let mut f = vec![];
        if let Some(p) = &self.path {
            f.push((rm::PATH, o(p)));
        }
        if let Some(x) = &self.interface {
            f.push((rm::INTERFACE, s(x)));
        }
        if let Some(x) = &self.member {
            f.push((rm::MEMBER, s(x)));
        }
        if let Some(x) = &self.error_name {
            f.push((rm::ERROR_NAME, s(x)));
        }
        if let (Some(x), false) = (self.reply_serial, self.reply_serial_removed) {
            f.push((rm::REPLY_SERIAL, RV::U(x)));
        }
        if let Some(x) = &self.destination {
            f.push((rm::DESTINATION, s(x)));
        }
        if let Some(x) = &self.sender {
            f.push((rm::SENDER, s(x)));
        }
        if !body.args.is_empty() {
            f.push((rm::SIGNATURE, RV::G(rm::body_sig(&body.args))));
        }
        let n: usize = body.args.iter().map(|a| a.count_fds()).sum();
        if n > 0 {
            f.push((rm::UNIX_FDS, RV::U(n as u32)));
        }
        f
    }
    fn is_reply(&self) -> bool {
        self.mtype == rm::METHOD_RETURN || self.mtype == rm::ERROR
    }
}

fn opt_vals(vals: &[&str]) -> Vec<Option<String>> {
    let mut v = vec![None];
    v.extend(vals.iter().map(|x| Some(x.to_string())));
    v
}
fn req_vals(vals: &[&str]) -> Vec<Option<String>> {
    vals.iter().map(|x| Some(x.to_string())).collect()
}

pub fn enumerate_headers(tier: Tier) -> Vec<Case> {
    let t = tier == Tier::Thorough;
    let paths: &[&str] = &["/", "/a/b"];
    let dests: &[&str] = &[":1.5", "org.a.B"];
    let ifaces: &[&str] = if t { &["x.y.I", "a.b"] } else { &["x.y.I"] };
    let members: &[&str] = if t { &["Ping", "M"] } else { &["Ping"] };
    let senders: &[&str] = if t { &[":1.7", ":9.99999"] } else { &[":1.7"] };
    let errors: &[&str] = if t {
        &["x.y.E", "org.freedesktop.DBus.Error.Failed"]
    } else {
        &["x.y.E"]
    };
    let rserials: &[u32] = if t { &[5, u32::MAX] } else { &[5] };

    let mut out = vec![];
    for mtype in [rm::METHOD_CALL, rm::SIGNAL, rm::METHOD_RETURN, rm::ERROR] {
        let reply = mtype == rm::METHOD_RETURN || mtype == rm::ERROR;
        // header field combinations
        let path_opts = if reply { opt_vals(paths) } else { req_vals(paths) };
        let iface_opts = if mtype == rm::SIGNAL { req_vals(ifaces) } else { opt_vals(ifaces) };
        let member_opts = if reply { opt_vals(members) } else { req_vals(members) };
        let err_opts = if mtype == rm::ERROR { req_vals(errors) } else { vec![None] };
        // (destination, inherited)
        let mut dest_opts: Vec<(Option<String>, bool)> = vec![(None, false)];
        for d in dests {
            dest_opts.push((Some(d.to_string()), false));
        }
        if reply {
            // inherited from the call's sender (must be a unique name)
            dest_opts.push((Some(":1.5".to_string()), true));
        }
        let sender_opts = opt_vals(senders);
        // (reply_serial, removed)
        let mut rs_opts: Vec<(Option<u32>, bool)> = vec![];
        if reply {
            for r in rserials {
                rs_opts.push((Some(*r), false));
            }
            rs_opts.push((Some(5), true));
        } else {
            rs_opts.push((None, false));
            for r in rserials {
                rs_opts.push((Some(*r), false));
            }
        }
        let mut headers = vec![];
        for p in &path_opts {
            for i in &iface_opts {
                for m in &member_opts {
                    for e in &err_opts {
                        for (d, dinh) in &dest_opts {
                            for sn in &sender_opts {
                                for (rs, rem) in &rs_opts {
                                    headers.push((p, i, m, e, d, *dinh, sn, *rs, *rem));
                                }
                            }
                        }
                    }
                }
            }
        }
        for (p, i, m, e, d, dinh, sn, rs, rem) in headers {
            out.push(Case {
                mtype,
                be: false,
                flags: 0,
                serial: None,
                path: p.clone(),
                interface: i.clone(),
                member: m.clone(),
                error_name: e.clone(),
                reply_serial: rs,
                reply_serial_removed: rem,
                destination: d.clone(),
                dest_inherited: dinh,
                sender: sn.clone(),
                body: 0,
                typed: false,
                route: 0,
            });
        }
    }
    out
}

/// The whole case space, materialized lazily: header template × flags × byte order × (body,
/// route of the body) × serial mode × builder route.
pub struct Space {
    pub headers: Vec<Case>,
    /// (body index, typed twin?)
    pub variants: Vec<(usize, bool)>,
    dims: [usize; 6],
}

const SERIALS: [Option<u32>; 2] = [None, Some(0xfffffffe)];

impl Space {
    pub fn new(tier: Tier, bodies: &[BodyDef]) -> Self {
        let headers = enumerate_headers(tier);
        let mut variants = vec![];
        for (bi, b) in bodies.iter().enumerate() {
            variants.push((bi, false));
            if b.typed.is_some() {
                variants.push((bi, true));
            }
        }
        let dims = [headers.len(), 8, 2, variants.len(), SERIALS.len(), 2];
        Self { headers, variants, dims }
    }
    pub fn len(&self) -> usize {
        self.dims.iter().product()
    }
    pub fn case(&self, i: usize) -> Case {
        let mut idx = vec![];
        vcommon::enumerate::nth_product(&self.dims, i, &mut idx);
        let mut c = self.headers[idx[0]].clone();
        c.flags = idx[1] as u8;
        c.be = idx[2] == 1;
        (c.body, c.typed) = self.variants[idx[3]];
        c.serial = SERIALS[idx[4]];
        c.route = idx[5] as u8;
        c
    }
}

// ---------------------------------------------------------------------------------------------
// driving the builder
// ---------------------------------------------------------------------------------------------

fn zerr(e: impl std::fmt::Display) -> String {
    e.to_string()
}

fn build_body(b: Builder<'_>, body: &BodyDef, typed: bool) -> Result<Message, String> {
    if typed {
        return match body.typed.expect("typed twin") {
            Typed::U32 => b.build(&7u32),
            Typed::Str => b.build(&"hello"),
            Typed::ByteU64 => b.build(&(1u8, 2u64)),
            Typed::VecI32 => b.build(&vec![1i32, -2, 3]),
            Typed::StructArg => b.build(&((1u8, 2u64),)),
            Typed::EmptyVecU64 => b.build(&Vec::<u64>::new()),
        }
        .map_err(zerr);
    }
    if body.args.is_empty() {
        return b.build(&()).map_err(zerr);
    }
    let st = rm::body_structure(&body.args, fd_table())?;
    b.build(&st).map_err(zerr)
}

pub enum Built {
    Msg(Message),
    /// `with_flags` refused the flag for this message type.
    FlagRefused(String),
    /// any other builder error
    Refused(String),
}

pub fn build_case(c: &Case, bodies: &[BodyDef]) -> Built {
    let endian = if c.be { Endian::Big } else { Endian::Little };
    let body = &bodies[c.body];
    macro_rules! tr {
        ($e:expr) => {
            match $e {
                Ok(v) => v,
                Err(e) => return Built::Refused(e.to_string()),
            }
        };
    }
    let call_msg; // keeps the replied-to call alive
    let call_hdr;
    let mut b: Builder<'_> = match c.mtype {
        rm::METHOD_CALL => {
            let mut b = tr!(Message::method_call(
                c.path.as_deref().unwrap(),
                c.member.as_deref().unwrap()
            ));
            if let Some(i) = &c.interface {
                b = tr!(b.interface(i.as_str()));
            }
            b.endian(endian)
        }
        rm::SIGNAL => tr!(Message::signal(
            c.path.as_deref().unwrap(),
            c.interface.as_deref().unwrap(),
            c.member.as_deref().unwrap()
        ))
        .endian(endian),
        _ => {
            let mut cb = tr!(Message::method_call("/call", "Call"))
                .endian(endian)
                .serial(NonZeroU32::new(c.reply_serial.unwrap()).unwrap());
            if c.dest_inherited {
                cb = tr!(cb.sender(c.destination.as_deref().unwrap()));
            }
            call_msg = tr!(cb.build(&()));
            call_hdr = call_msg.header();
            // byte order is inherited from the call
            let mut b = if c.mtype == rm::METHOD_RETURN {
                tr!(Message::method_return(&call_hdr))
            } else {
                tr!(Message::error(&call_hdr, c.error_name.as_deref().unwrap()))
            };
            if let Some(p) = &c.path {
                b = tr!(b.path(p.as_str()));
            }
            if let Some(i) = &c.interface {
                b = tr!(b.interface(i.as_str()));
            }
            if let Some(m) = &c.member {
                b = tr!(b.member(m.as_str()));
            }
            if c.reply_serial_removed {
                b = b.reply_serial(None);
            }
            b
        }
    };
    if !c.is_reply() {
        if let Some(r) = c.reply_serial {
            b = b.reply_serial(NonZeroU32::new(r));
        }
    }
    if let (Some(d), false) = (&c.destination, c.dest_inherited) {
        b = tr!(b.destination(d.as_str()));
    }
    if let Some(sn) = &c.sender {
        b = tr!(b.sender(sn.as_str()));
    }
    for (bit, flag) in [
        (1u8, Flags::NoReplyExpected),
        (2, Flags::NoAutoStart),
        (4, Flags::AllowInteractiveAuth),
    ] {
        if c.flags & bit != 0 {
            b = match b.with_flags(flag) {
                Ok(b) => b,
                Err(e) => return Built::FlagRefused(e.to_string()),
            };
        }
    }
    if let Some(sn) = c.serial {
        b = b.serial(NonZeroU32::new(sn).unwrap());
    }
    let m = match build_body(b, body, c.typed) {
        Ok(m) => m,
        Err(e) => return Built::Refused(e),
    };
    if c.route == 0 {
        return Built::Msg(m);
    }
    let hdr = m.header();
    match build_body(Builder::from(hdr), body, c.typed) {
        Ok(m2) => Built::Msg(m2),
        Err(e) => Built::Refused(format!("Builder::from(header): {e}")),
    }
}

// ---------------------------------------------------------------------------------------------
// observation of a zbus message through its public accessors
// ---------------------------------------------------------------------------------------------

#[derive(Debug, Clone, PartialEq)]
pub struct Obs {
    pub mtype: u8,
    pub flags: u8,
    pub serial: u32,
    pub be: bool,
    pub version: u8,
    pub body_len: u32,
    pub path: Option<String>,
    pub interface: Option<String>,
    pub member: Option<String>,
    pub error_name: Option<String>,
    pub reply_serial: Option<u32>,
    pub destination: Option<String>,
    pub sender: Option<String>,
    /// `to_string_no_parens` of the body signature
    pub signature: String,
    pub unix_fds: Option<u32>,
    pub n_fds: usize,
}

pub fn observe(m: &Message) -> Obs {
    let h = m.header();
    let p = h.primary();
    Obs {
        mtype: h.message_type() as u8,
        flags: p.flags().bits(),
        serial: p.serial_num().get(),
        be: matches!(Endian::from(p.endian_sig()), Endian::Big),
        version: p.protocol_version(),
        body_len: p.body_len(),
        path: h.path().map(|x| x.as_str().to_string()),
        interface: h.interface().map(|x| x.as_str().to_string()),
        member: h.member().map(|x| x.as_str().to_string()),
        error_name: h.error_name().map(|x| x.as_str().to_string()),
        reply_serial: h.reply_serial().map(|x| x.get()),
        destination: h.destination().map(|x| x.as_str().to_string()),
        sender: h.sender().map(|x| x.as_str().to_string()),
        signature: m.body().signature().to_string_no_parens(),
        unix_fds: h.unix_fds(),
        n_fds: m.data().fds().len(),
    }
}

/// The body value as the library deserializes it (dynamic `Structure` of the arguments).
pub fn read_body(m: &Message) -> Result<Vec<RV>, String> {
    let body = m.body();
    if matches!(body.signature(), zbus::zvariant::Signature::Unit) {
        body.deserialize::<()>().map_err(zerr)?;
        return Ok(vec![]);
    }
    let st: zbus::zvariant::Structure<'_> = body.deserialize().map_err(zerr)?;
    st.fields()
        .iter()
        .map(|v| rm::from_value(v, &fd_index_of_raw))
        .collect()
}

/// `Message::from_bytes` of the message's bytes with dups of its fds.
pub fn reparse(m: &Message) -> Result<Message, String> {
    let bytes = m.data().bytes().to_vec();
    let endian = if bytes.first() == Some(&b'B') { Endian::Big } else { Endian::Little };
    let mut fds: Vec<OwnedFd> = vec![];
    for f in m.data().fds() {
        fds.push(f.as_fd().try_clone_to_owned().map_err(zerr)?);
    }
    let data = Data::new_fds(bytes, Context::new_dbus(endian, 0), fds);
    unsafe { Message::from_bytes(data) }.map_err(zerr)
}

/// Equal body values, allowing for the library reading a body that is one struct argument as the
/// struct's members (the wire bytes are identical).
fn body_eq(expected: &[RV], observed: &[RV]) -> bool {
    if rm::rvs_eq(expected, observed) {
        return true;
    }
    if let [RV::Struct(fs)] = expected {
        return rm::rvs_eq(fs, observed);
    }
    false
}

fn sig_eq(expected_args: &[RV], observed_no_parens: &str) -> bool {
    let full = rm::body_sig(expected_args);
    if full == observed_no_parens {
        return true;
    }
    if let [RV::Struct(_)] = expected_args {
        return &full[1..full.len() - 1] == observed_no_parens;
    }
    false
}

// ---------------------------------------------------------------------------------------------
// the oracle
// ---------------------------------------------------------------------------------------------

pub struct Verdict {
    pub outcome: String,
    pub violations: Vec<Violation>,
    pub bytes: Vec<u8>,
}

fn type_name(t: u8) -> &'static str {
    match t {
        1 => "method_call",
        2 => "method_return",
        3 => "error",
        4 => "signal",
        _ => "?",
    }
}

pub fn check_case(c: &Case, bodies: &[BodyDef]) -> Verdict {
    let body = &bodies[c.body];
    let replay = json!({"case": c, "body_name": body.name});
    let mut vs: Vec<Violation> = vec![];
    let mut viol = |clause: &str, what: &str, detail: String| {
        vs.push(
            Violation::new(
                clause,
                format!(
                    "{} {} body={} flags={:#x} route={}: {detail}",
                    type_name(c.mtype),
                    if c.be { "BE" } else { "LE" },
                    body.name,
                    c.flags,
                    c.route
                ),
                replay.clone(),
            )
            .feat("what", what)
            .feat("type", type_name(c.mtype)),
        );
    };

    let built = match catch(|| build_case(c, bodies)) {
        Ok(b) => b,
        Err(p) => {
            viol("build-no-panic", "panic", format!("builder panicked: {p} at {}", vcommon::last_panic_location()));
            return Verdict { outcome: "builder-panicked".into(), violations: vs, bytes: vec![] };
        }
    };
    let m = match built {
        Built::Msg(m) => m,
        Built::FlagRefused(_) => {
            // NoReplyExpected on anything but a method call: the builder's documented refusal.
            let expected = c.mtype != rm::METHOD_CALL && c.flags & 1 != 0;
            return Verdict {
                outcome: if expected { "builder-refused-flag".into() } else { "builder-refused-unexpectedly".into() },
                violations: vs,
                bytes: vec![],
            };
        }
        Built::Refused(e) => {
            return Verdict { outcome: format!("builder-refused-unexpectedly: {e}"), violations: vs, bytes: vec![] };
        }
    };

    let bytes = m.data().bytes().to_vec();
    let n_fds_attached = m.data().fds().len();
    let expected_fields = c.expected_fields(body);
    let built_serial = m.primary_header().serial_num().get();
    let expected_serial = c.serial.unwrap_or(built_serial);
    if let Some(sn) = c.serial {
        if built_serial != sn {
            viol("reparse-equal", "serial", format!("explicit serial {sn} but the message reports {built_serial}"));
        }
    }

    // ---- reference parse of the header
    let mut outcome = String::from("ok");
    match rm::parse_header(&bytes) {
        Err(e) => viol("header-array-valid", "header", format!("{e}; bytes={}", hex(&bytes))),
        Ok(ph) => {
            outcome = format!("ok/header-padding={}", ph.body_offset - 16 - ph.fields_len as usize);
            // fields as a set
            let mut seen = std::collections::BTreeSet::new();
            for (code, v) in &ph.fields {
                if !seen.insert(*code) {
                    viol("fields-as-set", "duplicate", format!("field {} appears twice", rm::field_name(*code)));
                }
                match rm::prescribed_type(*code) {
                    None => viol("fields-as-set", "unknown-code", format!("field code {code} emitted")),
                    Some(t) if t != v.ty() => viol(
                        "fields-as-set",
                        "value-type",
                        format!("field {} carries type {} instead of {}", rm::field_name(*code), v.ty().sig(), t.sig()),
                    ),
                    _ => {}
                }
            }
            // absent SIGNATURE == empty signature, absent UNIX_FDS == 0 (what the format says)
            let canon = |fs: &[(u8, RV)]| {
                let mut v: Vec<(u8, String)> = fs
                    .iter()
                    .filter(|(c, v)| {
                        !((*c == rm::SIGNATURE && *v == RV::G(String::new())) || (*c == rm::UNIX_FDS && *v == RV::U(0)))
                    })
                    .map(|(c, v)| (*c, format!("{}:{}", v.ty().sig(), v.show())))
                    .collect();
                v.sort();
                v
            };
            let (exp, got) = (canon(&expected_fields), canon(&ph.fields));
            if exp != got {
                for e in &exp {
                    if !got.contains(e) {
                        viol(
                            "fields-as-set",
                            &format!("missing-or-wrong-{}", rm::field_name(e.0)),
                            format!("expected field {} = {} ; header has {:?}", rm::field_name(e.0), e.1, got),
                        );
                    }
                }
                for g in &got {
                    if !exp.contains(g) && !exp.iter().any(|e| e.0 == g.0) {
                        viol(
                            "fields-as-set",
                            &format!("extra-{}", rm::field_name(g.0)),
                            format!("header has field {} = {} that the message does not logically have", rm::field_name(g.0), g.1),
                        );
                    }
                }
            }
            // fixed part + whole header byte-exact under the reference encoder
            let actual_body_len = bytes.len().saturating_sub(ph.body_offset);
            let reference = rm::encode_header(
                c.be,
                c.mtype,
                c.flags,
                1,
                actual_body_len as u32,
                expected_serial,
                &ph.fields,
            );
            if bytes.len() < ph.body_offset || reference[..16] != bytes[..16] {
                viol(
                    "header-bytes-exact",
                    "fixed-part",
                    format!("fixed part {} but the format prescribes {}", hex(&bytes[..16]), hex(&reference[..16])),
                );
            } else if reference[..] != bytes[..ph.body_offset] {
                viol(
                    "header-bytes-exact",
                    "fields-or-padding",
                    format!("header {} but the reference encodes {}", hex(&bytes[..ph.body_offset]), hex(&reference)),
                );
            }
            // declared body length
            if ph.body_len as usize != actual_body_len || bytes.len() < ph.body_offset {
                viol(
                    "body-length-declared",
                    "body-length",
                    format!(
                        "declared body length {} but {} bytes follow the body offset {}",
                        ph.body_len, actual_body_len, ph.body_offset
                    ),
                );
            }
            // declared fd count
            let declared_fds = ph
                .fields
                .iter()
                .find(|(c, _)| *c == rm::UNIX_FDS)
                .and_then(|(_, v)| if let RV::U(n) = v { Some(*n as usize) } else { None })
                .unwrap_or(0);
            let body_fds: usize = body.args.iter().map(|a| a.count_fds()).sum();
            if declared_fds != n_fds_attached || declared_fds != body_fds {
                viol(
                    "unix-fds-declared",
                    "unix-fds",
                    format!("UNIX_FDS declares {declared_fds}, {n_fds_attached} fds attached, body has {body_fds} fd values"),
                );
            }
            // body decodes to the value
            if bytes.len() >= ph.body_offset {
                let tys: Vec<Ty> = body.args.iter().map(|a| a.ty()).collect();
                match rm::decode_body(&tys, &bytes[ph.body_offset..], c.be, n_fds_attached as u32) {
                    Err(e) => viol("body-decodes", "body", format!("body bytes do not decode as {}: {e}", rm::body_sig(&body.args))),
                    Ok(vals) => {
                        // wire fd index -> attached fd -> table index
                        let fds = m.data().fds();
                        let mapped: Vec<RV> = vals
                            .iter()
                            .map(|v| {
                                v.map_fds(&|i| {
                                    fds.get(i as usize)
                                        .map(|f| {
                                            use std::os::fd::AsRawFd;
                                            fd_index_of_raw(f.as_fd().as_raw_fd())
                                        })
                                        .unwrap_or(u32::MAX)
                                })
                            })
                            .collect();
                        if !rm::rvs_eq(&mapped, &body.args) {
                            viol(
                                "body-decodes",
                                "body",
                                format!(
                                    "body bytes decode to {:?}, built from {:?}",
                                    mapped.iter().map(|x| x.show()).collect::<Vec<_>>(),
                                    body.args.iter().map(|x| x.show()).collect::<Vec<_>>()
                                ),
                            );
                        }
                    }
                }
            }
        }
    }

    // ---- re-parse with the library
    let expected_obs = Obs {
        mtype: c.mtype,
        flags: c.flags,
        serial: expected_serial,
        be: c.be,
        version: 1,
        body_len: 0, // compared separately
        path: c.path.clone(),
        interface: c.interface.clone(),
        member: c.member.clone(),
        error_name: c.error_name.clone(),
        reply_serial: if c.reply_serial_removed { None } else { c.reply_serial },
        destination: c.destination.clone(),
        sender: c.sender.clone(),
        signature: String::new(),
        unix_fds: None,
        n_fds: 0,
    };
    let re = catch(|| {
        let r = reparse(&m)?;
        let obs = observe(&r);
        let body_val = read_body(&r);
        Ok::<_, String>((obs, body_val))
    });
    match re {
        Err(p) => viol("reparse-equal", "panic", format!("re-parsing panicked: {p} at {}", vcommon::last_panic_location())),
        Ok(Err(e)) => viol("reparse-equal", "from_bytes-error", format!("Message::from_bytes(data) failed: {e}; bytes={}", hex(&bytes))),
        Ok(Ok((obs, body_val))) => {
            let built_side = catch(|| (observe(&m), read_body(&m)));
            let mut cmp = |what: &str, ok: bool, detail: String| {
                if !ok {
                    viol("reparse-equal", what, detail);
                }
            };
            cmp("type", obs.mtype == expected_obs.mtype, format!("type {} re-parses as {}", c.mtype, obs.mtype));
            cmp("serial", obs.serial == expected_obs.serial, format!("serial {} re-parses as {}", expected_obs.serial, obs.serial));
            cmp("flags", obs.flags == expected_obs.flags, format!("flags {:#x} re-parse as {:#x}", c.flags, obs.flags));
            cmp("endian", obs.be == c.be, format!("byte order BE={} re-parses as BE={}", c.be, obs.be));
            cmp("version", obs.version == 1, format!("protocol version re-parses as {}", obs.version));
            cmp("path", obs.path == expected_obs.path, format!("path {:?} re-parses as {:?}", expected_obs.path, obs.path));
            cmp("interface", obs.interface == expected_obs.interface, format!("interface {:?} re-parses as {:?}", expected_obs.interface, obs.interface));
            cmp("member", obs.member == expected_obs.member, format!("member {:?} re-parses as {:?}", expected_obs.member, obs.member));
            cmp("error_name", obs.error_name == expected_obs.error_name, format!("error name {:?} re-parses as {:?}", expected_obs.error_name, obs.error_name));
            cmp("reply_serial", obs.reply_serial == expected_obs.reply_serial, format!("reply serial {:?} re-parses as {:?}", expected_obs.reply_serial, obs.reply_serial));
            cmp("destination", obs.destination == expected_obs.destination, format!("destination {:?} re-parses as {:?}", expected_obs.destination, obs.destination));
            cmp("sender", obs.sender == expected_obs.sender, format!("sender {:?} re-parses as {:?}", expected_obs.sender, obs.sender));
            cmp(
                "signature",
                sig_eq(&body.args, &obs.signature),
                format!("body signature {:?} re-parses as {:?}", rm::body_sig(&body.args), obs.signature),
            );
            let body_fds: usize = body.args.iter().map(|a| a.count_fds()).sum();
            cmp(
                "unix_fds",
                obs.unix_fds.unwrap_or(0) as usize == body_fds && obs.n_fds == body_fds,
                format!("{} fds re-parse as unix_fds={:?} with {} attached", body_fds, obs.unix_fds, obs.n_fds),
            );
            match &body_val {
                Err(e) => cmp("body", false, format!("re-parsed body does not deserialize: {e}")),
                Ok(v) => cmp(
                    "body",
                    body_eq(&body.args, v),
                    format!(
                        "body {:?} re-parses as {:?}",
                        body.args.iter().map(|x| x.show()).collect::<Vec<_>>(),
                        v.iter().map(|x| x.show()).collect::<Vec<_>>()
                    ),
                ),
            }
            // built message and re-parsed message agree through the same accessors
            match built_side {
                Err(p) => cmp("built-accessors-panic", false, format!("accessors of the built message panicked: {p}")),
                Ok((bobs, bbody)) => {
                    cmp("built-vs-reparsed-header", bobs == obs, format!("built message reads {bobs:?}, re-parsed reads {obs:?}"));
                    let same = match (&bbody, &body_val) {
                        (Ok(a), Ok(b)) => rm::rvs_eq(a, b),
                        (Err(_), Err(_)) => true,
                        _ => false,
                    };
                    cmp("built-vs-reparsed-body", same, format!("built body reads {bbody:?}, re-parsed reads {body_val:?}"));
                }
            }
            // statically typed read-back for typed bodies
            if c.typed {
                let typed_ok = catch(|| {
                    let r = reparse(&m)?;
                    let b = r.body();
                    let ok = match body.typed.unwrap() {
                        Typed::U32 => b.deserialize::<u32>().map(|v| v == 7).map_err(zerr),
                        Typed::Str => b.deserialize::<&str>().map(|v| v == "hello").map_err(zerr),
                        Typed::ByteU64 => b.deserialize::<(u8, u64)>().map(|v| v == (1, 2)).map_err(zerr),
                        Typed::VecI32 => b.deserialize::<Vec<i32>>().map(|v| v == vec![1, -2, 3]).map_err(zerr),
                        // One struct argument: the library's convention reads it back as its members.
                        Typed::StructArg => b.deserialize::<(u8, u64)>().map(|v| v == (1, 2)).map_err(zerr),
                        Typed::EmptyVecU64 => b.deserialize::<Vec<u64>>().map(|v| v.is_empty()).map_err(zerr),
                    };
                    ok
                });
                match typed_ok {
                    Ok(Ok(true)) => {}
                    other => cmp("typed-body", false, format!("typed read-back of body {}: {other:?}", body.name)),
                }
            }
        }
    }

    if !vs.is_empty() {
        outcome = "violation".into();
    }
    Verdict { outcome, violations: vs, bytes }
}

// ---------------------------------------------------------------------------------------------
// main / replay
// ---------------------------------------------------------------------------------------------

fn replay(path: &str, tier: Tier) -> i32 {
    let v = vcommon::load_replay(path);
    let r = &v["replay"];
    let case: Case = match serde_json::from_value(r["case"].clone()) {
        Ok(c) => c,
        Err(e) => vcommon::machinery_failure(&format!("C11 replay: bad case: {e}")),
    };
    // the body index refers to the corpus of the tier that wrote the artefact; find by name
    let mut tier = tier;
    let name = r["body_name"].as_str().unwrap_or("");
    if bodies(tier).get(case.body).map(|b| b.name) != Some(name) {
        tier = Tier::Thorough;
    }
    let bs = bodies(tier);
    println!("case: {}", serde_json::to_string(&case).unwrap());
    println!("body {} = {:?}", bs[case.body].name, bs[case.body].args.iter().map(|x| x.show()).collect::<Vec<_>>());
    let verdict = check_case(&case, &bs);
    println!("bytes: {}", hex(&verdict.bytes));
    if let Ok(ph) = rm::parse_header(&verdict.bytes) {
        println!(
            "reference parse: type={} flags={:#x} version={} body_len={} serial={} fields_len={} body_offset={}",
            ph.mtype, ph.flags, ph.version, ph.body_len, ph.serial, ph.fields_len, ph.body_offset
        );
        for (c, v) in &ph.fields {
            println!("  field {} ({}) = {}:{}", c, rm::field_name(*c), v.ty().sig(), v.show());
        }
    }
    println!("outcome: {}", verdict.outcome);
    for v in &verdict.violations {
        println!("violation: clause={} features={:?} {}", v.clause, v.features, v.detail);
    }
    if verdict.violations.is_empty() {
        println!("no violation on this case");
        0
    } else {
        1
    }
}

pub fn main(args: &Args) -> i32 {
    if let Some(p) = &args.replay {
        return replay(p, args.tier);
    }
    let report = Report::new("C11", args.tier, args.seed, "exploration");
    let bs = bodies(args.tier);
    let space = Space::new(args.tier, &bs);
    let _ = fd_table();
    let _ = table_inodes();
    let n = space.len();
    report.set("cases_enumerated", json!(n));
    report.set("header_field_combinations", json!(space.headers.len()));
    report.set("bodies", json!(bs.iter().map(|b| format!("{}:{}", b.name, rm::body_sig(&b.args))).collect::<Vec<_>>()));
    let sample_every = (n / 10).max(1);
    par_for(n, 256, |i| {
        let c = &space.case(i);
        let v = check_case(c, &bs);
        report.eval(1);
        report.outcome(&v.outcome);
        if !v.bytes.is_empty() {
            report.nontrivial(hash64(c));
            report.add("messages_built", 1);
        }
        if i % sample_every == 0 && !v.bytes.is_empty() {
            report.sample(json!({"case": c, "body": bs[c.body].name, "bytes": hex(&v.bytes), "outcome": v.outcome}));
        }
        if v.outcome.starts_with("builder-refused-unexpectedly") {
            report.cap(format!("case not checked, the builder refused it: {} ({})", v.outcome, serde_json::to_string(c).unwrap()));
        }
        for x in v.violations {
            report.violation(x);
        }
    });
    // ---- audit of the reference model against libdbus (never decides the property)
    match rm::LibDbus::load() {
        None => report.note("libdbus could not be loaded: the reference-model audit was skipped"),
        Some(lib) => {
            let (mut audited, mut masked) = (0u64, 0u64);
            for c in (0..n).map(|i| space.case(i)).filter(|c| c.route == 0 && !c.typed && c.serial.is_some()) {
                if c.reply_serial_removed {
                    masked += 1; // libdbus insists on REPLY_SERIAL in replies; the property does not
                    continue;
                }
                let body = &bs[c.body];
                let spec = rm::MsgSpec {
                    be: c.be,
                    mtype: c.mtype,
                    flags: c.flags,
                    version: 1,
                    serial: c.serial.unwrap(),
                    fields: c.expected_fields(body),
                    body: body.args.clone(),
                    auto_body_fields: false,
                };
                match rm::audit_with_libdbus(&lib, &spec) {
                    Ok(true) => audited += 1,
                    Ok(false) => masked += 1,
                    Err(e) => vcommon::machinery_failure(&format!("C11: reference model audit failed: {e}")),
                }
            }
            report.set(
                "reference_model_audit",
                json!({"against": "libdbus dbus_message_demarshal + header getters + demarshal_bytes_needed",
                       "messages_agreed": audited, "masked": masked,
                       "mask": "messages carrying fds (libdbus needs them on a socket); replies without REPLY_SERIAL (libdbus requires the field)"}),
            );
        }
    }
    report.assume("the reference message layout in refmsg.rs (written from the D-Bus specification) is correct; audited against libdbus on the whole logical case set, see reference_model_audit");
    report.assume("fd identity is (st_dev, st_ino) of anonymous memfds");
    report.assume("a body that is one struct argument is read back by the library as the struct's members; the wire bytes are identical, so this is accepted as the same value");
    report.note("both byte orders are built by the library itself (Builder::endian; replies inherit it from the call)");
    // observed, not judged: how a body that is ONE struct argument reads back when asked for as such
    if let Ok(Ok(m)) = catch(|| Message::method_call("/", "M").and_then(|b| b.build(&((1u8, 2u64),)))) {
        let r = catch(|| {
            let b = m.body();
            (
                b.signature().to_string(),
                b.deserialize::<((u8, u64),)>().map_err(zerr),
                b.deserialize::<(u8, u64)>().map_err(zerr),
            )
        });
        report.note(format!(
            "observation (not judged): body built from the 1-tuple ((1u8, 2u64),) has header SIGNATURE \"(yt)\"; body().signature(), deserialize::<((u8,u64),)>, deserialize::<(u8,u64)> = {r:?}"
        ));
    }
    report.finish(
        "product of message type × settable header-field subsets (value lists per tier) × 8 flag subsets × byte order × body corpus (dynamic and typed routes) × automatic/explicit serial × builder route; a case is non-trivial when the builder produced a message (distinct logical cases counted)",
        true,
    )
}
