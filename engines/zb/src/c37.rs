//! C37 — bus match registrations mirror the live signal subscriptions.
//!
//! Space: the FULL tree of valid operation histories of a given depth (no state merging: the
//! connection's `subscriptions` map is not observable). Every history is executed from scratch on
//! a real zbus bus connection facing the fake bus, which records AddMatch/RemoveMatch as a
//! multiset of rule strings. After every operation the world is pumped to quiescence (queued
//! `remove_match` tasks run and the bus answers them).
//!
//! Operations:
//!   new-stream(R)      `MessageStream::for_match_rule(R, &conn, None)` for
//!                      R ∈ {SIG = the signal rule a proxy signal stream uses,
//!                           NOC = the NameOwnerChanged(arg0=x.y.Z) rule proxies use,
//!                           UNTYPED = a rule without a type key (selects signals: registered),
//!                           CALL = a method_call rule (never to be registered; thorough tier)}
//!   new-proxy-stream   `proxy::Builder` (cache disabled) for well-known x.y.Z + `receive_signal("Sig")`;
//!                      yields two handles: the proxy (holds NOC once subscribed) and the signal
//!                      stream (holds SIG and NOC)
//!   clone(i)           `MessageStream::clone` / `Proxy::clone` of live handle i
//!   drop(i)            synchronous drop (→ queued removal task)
//!   async-drop(i)      `AsyncDrop::async_drop` (streams only)
//!   two-concurrent-new-streams(R)  two `for_match_rule(R)` calls in flight together (R ∈ {SIG, NOC})
//!   new-stream(R)-refused-by-the-bus  the bus answers the AddMatch with LimitsExceeded: creation
//!                      fails (offered only when R has no live subscriber, R ∈ {SIG, NOC})
//!   drop(i)-then-new-stream-at-once  drop a stream and subscribe to its rule again before the
//!                      queued removal has run
//!
//! Oracle (statement only), checked after every operation once the world is quiescent:
//!   * registered-set-equals-live-rules: {rules with AddMatch−RemoveMatch > 0 at the bus} ==
//!     {distinct signal rules with ≥ 1 live subscriber in the reference model}
//!   * no-rule-added-twice: AddMatch for a rule that is already registered
//!   * no-rule-removed-while-in-use: a successful RemoveMatch for a rule that still has a live
//!     subscriber
//! Reference model: a subscriber is every live `MessageStream` value (a clone is a stream too),
//! every live proxy signal stream (SIG + NOC) and every group of `Proxy` clones with a live
//! member (NOC). Rules are identified by their parsed content, not by string spelling.
//! Only the first violating step of a history is reported (later ones can be consequences).
//! Attribution: the history is re-run with every `clone(stream)` replaced by an independent
//! `new-stream` of the same rule (what a clone ought to be equivalent to); if that run satisfies
//! the oracle up to the same step, the violation is attributed to stream cloning.

use std::collections::HashSet;

use serde_json::{json, Value};
use vcommon::{catch, hash64, Args, Report, Violation};
use zbus::{
    message::Type,
    proxy::{CacheProperties, SignalStream},
    AsyncDrop, MatchRule, MessageStream, Proxy,
};

use crate::{
    fakebus::{self, parse_rule, Bus, BusRule},
    world::World,
};

const DEST: &str = "x.y.Z";
const RULE_NAMES: [&str; 4] = ["SIG", "NOC", "UNTYPED", "CALL"];

fn rule(r: usize) -> MatchRule<'static> {
    match r {
        0 => MatchRule::builder()
            .msg_type(Type::Signal)
            .sender(DEST)
            .unwrap()
            .path("/p")
            .unwrap()
            .interface("x.y.I")
            .unwrap()
            .member("Sig")
            .unwrap()
            .build(),
        1 => MatchRule::builder()
            .msg_type(Type::Signal)
            .sender("org.freedesktop.DBus")
            .unwrap()
            .path("/org/freedesktop/DBus")
            .unwrap()
            .interface("org.freedesktop.DBus")
            .unwrap()
            .member("NameOwnerChanged")
            .unwrap()
            .add_arg(DEST)
            .unwrap()
            .build(),
        // a rule without a `type` key: it selects signals too and has to be registered
        2 => MatchRule::builder()
            .sender(DEST)
            .unwrap()
            .interface("x.y.J")
            .unwrap()
            .build(),
        _ => MatchRule::builder()
            .msg_type(Type::MethodCall)
            .interface("x.y.I")
            .unwrap()
            .build(),
    }
}

/// The rules as the bus must see them (written by hand, independent of zbus's `Display`).
fn bus_rule(r: usize) -> BusRule {
    match r {
        0 => BusRule {
            typ: Some("signal".into()),
            sender: Some(DEST.into()),
            path: Some("/p".into()),
            interface: Some("x.y.I".into()),
            member: Some("Sig".into()),
            ..Default::default()
        },
        1 => BusRule {
            typ: Some("signal".into()),
            sender: Some("org.freedesktop.DBus".into()),
            path: Some("/org/freedesktop/DBus".into()),
            interface: Some("org.freedesktop.DBus".into()),
            member: Some("NameOwnerChanged".into()),
            args: vec![(0, DEST.into())],
            ..Default::default()
        },
        2 => BusRule {
            sender: Some(DEST.into()),
            interface: Some("x.y.J".into()),
            ..Default::default()
        },
        _ => BusRule {
            typ: Some("method_call".into()),
            interface: Some("x.y.I".into()),
            ..Default::default()
        },
    }
}

fn rule_id(s: &str) -> Option<usize> {
    let p = parse_rule(s).ok()?;
    (0..4).find(|r| bus_rule(*r) == p)
}

#[derive(Clone, Copy, PartialEq, Eq, Debug, Hash)]
enum Op {
    NewMs(usize),
    NewProxySig,
    Clone(usize),
    Drop(usize),
    AsyncDrop(usize),
    /// Two `for_match_rule` calls for the same rule running concurrently (the second starts while
    /// the first is still waiting for the bus's AddMatch reply).
    NewPair(usize),
    /// Drop stream handle i and subscribe to its rule again at once, before the queued removal
    /// has run.
    DropThenNew(usize),
    /// `for_match_rule(R)` while the bus refuses the AddMatch (LimitsExceeded): the creation fails
    /// and nobody subscribes. Only offered when R has no live subscriber (so AddMatch is due).
    NewRefused(usize),
}

fn label(op: &Op) -> String {
    match op {
        Op::NewMs(r) => format!("new-stream({})", RULE_NAMES[*r]),
        Op::NewProxySig => "new-proxy-stream".into(),
        Op::Clone(i) => format!("clone(h{i})"),
        Op::Drop(i) => format!("drop(h{i})"),
        Op::AsyncDrop(i) => format!("async-drop(h{i})"),
        Op::NewPair(r) => format!("two-concurrent-new-streams({})", RULE_NAMES[*r]),
        Op::DropThenNew(i) => format!("drop(h{i})-then-new-stream-at-once"),
        Op::NewRefused(r) => format!("new-stream({})-refused-by-the-bus", RULE_NAMES[*r]),
    }
}

fn encode(op: &Op) -> Value {
    match op {
        Op::NewMs(r) => json!(["new", r]),
        Op::NewProxySig => json!(["proxy"]),
        Op::Clone(i) => json!(["clone", i]),
        Op::Drop(i) => json!(["drop", i]),
        Op::AsyncDrop(i) => json!(["adrop", i]),
        Op::NewPair(r) => json!(["pair", r]),
        Op::DropThenNew(i) => json!(["dropnew", i]),
        Op::NewRefused(r) => json!(["refused", r]),
    }
}

fn decode(v: &Value) -> Option<Op> {
    let k = v.get(0)?.as_str()?;
    let a = v.get(1).and_then(|x| x.as_u64()).unwrap_or(0) as usize;
    Some(match k {
        "new" => Op::NewMs(a),
        "proxy" => Op::NewProxySig,
        "clone" => Op::Clone(a),
        "drop" => Op::Drop(a),
        "adrop" => Op::AsyncDrop(a),
        "pair" => Op::NewPair(a),
        "dropnew" => Op::DropThenNew(a),
        "refused" => Op::NewRefused(a),
        _ => return None,
    })
}

#[derive(Clone, Copy, PartialEq, Eq, Debug, Hash)]
enum HK {
    Ms(usize),
    Ss,
    Px(usize), // group
}

#[derive(Clone, Debug, Hash, PartialEq, Eq)]
struct MH {
    kind: HK,
    alive: bool,
    cloned: bool,
}

/// Reference model: who subscribes to what.
#[derive(Clone, Debug, Default, Hash, PartialEq, Eq)]
struct Model {
    hs: Vec<MH>,
    groups: usize,
}

impl Model {
    fn valid(&self, op: &Op) -> bool {
        match op {
            Op::NewMs(_) | Op::NewProxySig | Op::NewPair(_) => true,
            Op::NewRefused(r) => Model::is_signal_rule(*r) && self.live(*r) == 0,
            Op::DropThenNew(i) => self.hs.get(*i).map(|h| h.alive && matches!(h.kind, HK::Ms(_))).unwrap_or(false),
            Op::Clone(i) => self
                .hs
                .get(*i)
                .map(|h| h.alive && !matches!(h.kind, HK::Ss))
                .unwrap_or(false),
            Op::Drop(i) => self.hs.get(*i).map(|h| h.alive).unwrap_or(false),
            Op::AsyncDrop(i) => self
                .hs
                .get(*i)
                .map(|h| h.alive && !matches!(h.kind, HK::Px(_)))
                .unwrap_or(false),
        }
    }
    fn apply(&mut self, op: &Op) {
        match op {
            Op::NewMs(r) => self.hs.push(MH { kind: HK::Ms(*r), alive: true, cloned: false }),
            Op::NewProxySig => {
                self.hs.push(MH { kind: HK::Px(self.groups), alive: true, cloned: false });
                self.hs.push(MH { kind: HK::Ss, alive: true, cloned: false });
                self.groups += 1;
            }
            Op::Clone(i) => {
                let k = self.hs[*i].kind;
                self.hs.push(MH { kind: k, alive: true, cloned: true });
            }
            Op::Drop(i) | Op::AsyncDrop(i) => self.hs[*i].alive = false,
            Op::NewPair(r) => {
                self.hs.push(MH { kind: HK::Ms(*r), alive: true, cloned: false });
                self.hs.push(MH { kind: HK::Ms(*r), alive: true, cloned: false });
            }
            // the creation fails: a handle slot that never was alive
            Op::NewRefused(r) => self.hs.push(MH { kind: HK::Ms(*r), alive: false, cloned: false }),
            Op::DropThenNew(i) => {
                let k = self.hs[*i].kind;
                self.hs[*i].alive = false;
                self.hs.push(MH { kind: k, alive: true, cloned: false });
            }
        }
    }
    /// Live subscribers of signal rule `r`.
    fn live(&self, r: usize) -> usize {
        let mut n = 0;
        let mut groups = HashSet::new();
        for h in &self.hs {
            if !h.alive {
                continue;
            }
            match h.kind {
                HK::Ms(x) if x == r => n += 1,
                HK::Ss if r == 0 || r == 1 => n += 1,
                HK::Px(g) if r == 1 => {
                    if groups.insert(g) {
                        n += 1
                    }
                }
                _ => {}
            }
        }
        n
    }
    fn is_signal_rule(r: usize) -> bool {
        r != 3
    }
}

enum RH {
    Ms(Option<MessageStream>),
    Ss(Option<SignalStream<'static>>),
    Px(Option<Proxy<'static>>),
}

#[derive(Clone, Debug)]
struct StepViolation {
    step: usize,
    clause: &'static str,
    detail: String,
    feats: Vec<(&'static str, String)>,
}

#[derive(Default)]
struct HistResult {
    log: Vec<String>,
    states: Vec<u64>,
    violations: Vec<StepViolation>,
    transitions: u64,
    machinery: Option<String>,
    outcomes: Vec<String>,
    nontrivial: bool,
}

fn registered(bus: &Bus) -> Vec<(String, usize)> {
    bus.matches.rules.iter().map(|(k, v)| (k.clone(), *v)).collect()
}

/// Execute one history. `declone` = replace clones of message streams by independent streams.
fn run_history(ops: &[Op], declone: bool) -> HistResult {
    let mut out = HistResult::default();
    let mut w = World::new();
    let mut bus = Bus::new();
    bus.set_owner(DEST, Some(":1.5"));
    let conn = match fakebus::connect(&mut w, &mut bus) {
        Ok(c) => c,
        Err(e) => {
            out.machinery = Some(e);
            return out;
        }
    };
    let mut model = Model::default();
    let mut hs: Vec<RH> = vec![];
    let mut removed_in_use: HashSet<usize> = HashSet::new();

    for (step, op) in ops.iter().enumerate() {
        if !model.valid(op) {
            out.machinery = Some(format!("invalid operation {} at step {step}", label(op)));
            return out;
        }
        let calls0 = bus.calls.len();
        let dadds0 = bus.double_adds.len();
        let mut note = String::new();
        let (h_kind, h_origin) = match op {
            Op::Clone(i) | Op::Drop(i) | Op::AsyncDrop(i) | Op::DropThenNew(i) => (
                match model.hs[*i].kind {
                    HK::Ms(_) => "stream",
                    HK::Ss => "proxy-signal-stream",
                    HK::Px(_) => "proxy",
                },
                if model.hs[*i].cloned { "cloned" } else { "created" },
            ),
            _ => ("-", "-"),
        };
        let done: Result<bool, String> = catch(|| match op {
            Op::NewMs(r) => {
                let c = conn.clone();
                let rl = rule(*r);
                match fakebus::run(&mut w, &mut bus, "new-stream", async move {
                    MessageStream::for_match_rule(rl, &c, None).await
                }) {
                    Some(Ok(s)) => {
                        hs.push(RH::Ms(Some(s)));
                        true
                    }
                    Some(Err(e)) => {
                        note = format!(" error:{e}");
                        hs.push(RH::Ms(None));
                        true
                    }
                    None => false,
                }
            }
            Op::NewRefused(r) => {
                let c = conn.clone();
                let rl = rule(*r);
                bus.refuse_add_match = 1;
                let res = fakebus::run(&mut w, &mut bus, "new-stream-refused", async move {
                    MessageStream::for_match_rule(rl, &c, None).await
                });
                bus.refuse_add_match = 0;
                match res {
                    Some(Ok(s)) => {
                        // created although the bus said no: nobody keeps it
                        note = " created-despite-refusal".into();
                        drop(s);
                        hs.push(RH::Ms(None));
                        fakebus::pump(&mut w, &mut bus);
                        true
                    }
                    Some(Err(e)) => {
                        note = format!(" error:{e}");
                        hs.push(RH::Ms(None));
                        fakebus::pump(&mut w, &mut bus);
                        true
                    }
                    None => false,
                }
            }
            Op::NewPair(r) => {
                let (c1, c2) = (conn.clone(), conn.clone());
                let (r1, r2) = (rule(*r), rule(*r));
                match fakebus::run(&mut w, &mut bus, "two-new-streams", async move {
                    futures_lite::future::zip(
                        async move { MessageStream::for_match_rule(r1, &c1, None).await },
                        async move { MessageStream::for_match_rule(r2, &c2, None).await },
                    )
                    .await
                }) {
                    Some((a, b)) => {
                        for s in [a, b] {
                            match s {
                                Ok(s) => hs.push(RH::Ms(Some(s))),
                                Err(e) => {
                                    note = format!("{note} error:{e}");
                                    hs.push(RH::Ms(None))
                                }
                            }
                        }
                        true
                    }
                    None => false,
                }
            }
            Op::DropThenNew(i) => {
                let r = match model.hs[*i].kind {
                    HK::Ms(r) => r,
                    _ => unreachable!(),
                };
                if let RH::Ms(s) = &mut hs[*i] {
                    drop(s.take());
                }
                // no pumping in between: the removal queued by the drop has not run yet
                let c = conn.clone();
                let rl = rule(r);
                match fakebus::run(&mut w, &mut bus, "new-stream-right-after-drop", async move {
                    MessageStream::for_match_rule(rl, &c, None).await
                }) {
                    Some(Ok(s)) => {
                        hs.push(RH::Ms(Some(s)));
                        fakebus::pump(&mut w, &mut bus);
                        true
                    }
                    Some(Err(e)) => {
                        note = format!(" error:{e}");
                        hs.push(RH::Ms(None));
                        fakebus::pump(&mut w, &mut bus);
                        true
                    }
                    None => false,
                }
            }
            Op::NewProxySig => {
                let c = conn.clone();
                match fakebus::run(&mut w, &mut bus, "new-proxy-stream", async move {
                    let p: Proxy<'static> = zbus::proxy::Builder::<Proxy<'static>>::new(&c)
                        .destination(DEST)?
                        .path("/p")?
                        .interface("x.y.I")?
                        .cache_properties(CacheProperties::No)
                        .build()
                        .await?;
                    let s = p.receive_signal("Sig").await?;
                    zbus::Result::Ok((p, s))
                }) {
                    Some(Ok((p, s))) => {
                        hs.push(RH::Px(Some(p)));
                        hs.push(RH::Ss(Some(s)));
                        true
                    }
                    Some(Err(e)) => {
                        note = format!(" error:{e}");
                        hs.push(RH::Px(None));
                        hs.push(RH::Ss(None));
                        true
                    }
                    None => false,
                }
            }
            Op::Clone(i) => {
                let new = match &hs[*i] {
                    RH::Ms(Some(s)) => {
                        if declone {
                            let c = conn.clone();
                            let rl = match model.hs[*i].kind {
                                HK::Ms(r) => rule(r),
                                _ => unreachable!(),
                            };
                            match fakebus::run(&mut w, &mut bus, "new-stream-instead-of-clone", async move {
                                MessageStream::for_match_rule(rl, &c, None).await
                            }) {
                                Some(Ok(s)) => RH::Ms(Some(s)),
                                _ => RH::Ms(None),
                            }
                        } else {
                            RH::Ms(Some(s.clone()))
                        }
                    }
                    RH::Px(Some(p)) => RH::Px(Some(p.clone())),
                    RH::Ms(None) => RH::Ms(None),
                    RH::Px(None) => RH::Px(None),
                    RH::Ss(_) => unreachable!(),
                };
                hs.push(new);
                fakebus::pump(&mut w, &mut bus);
                true
            }
            Op::Drop(i) => {
                match &mut hs[*i] {
                    RH::Ms(s) => drop(s.take()),
                    RH::Ss(s) => drop(s.take()),
                    RH::Px(p) => drop(p.take()),
                }
                fakebus::pump(&mut w, &mut bus);
                true
            }
            Op::AsyncDrop(i) => match &mut hs[*i] {
                RH::Ms(s) => match s.take() {
                    Some(s) => fakebus::run(&mut w, &mut bus, "async-drop", async move { s.async_drop().await }).is_some(),
                    None => true,
                },
                RH::Ss(s) => match s.take() {
                    Some(s) => fakebus::run(&mut w, &mut bus, "async-drop", async move { s.async_drop().await }).is_some(),
                    None => true,
                },
                RH::Px(_) => unreachable!(),
            },
        });
        match done {
            Err(p) => {
                out.machinery = Some(format!("panic in {}: {p} at {}", label(op), vcommon::last_panic_location()));
                return out;
            }
            Ok(false) => {
                out.machinery = Some(format!(
                    "{} did not complete although the world is quiescent and the bus has answered everything (history {:?})",
                    label(op),
                    ops.iter().map(label).collect::<Vec<_>>()
                ));
                return out;
            }
            Ok(true) => {}
        }
        if !note.is_empty() && !matches!(op, Op::NewRefused(_)) {
            out.machinery = Some(format!("{} failed:{note}", label(op)));
            return out;
        }
        model.apply(op);
        out.transitions += 1;

        // ---- observations of this step ----
        let traffic: Vec<String> = bus.calls[calls0..]
            .iter()
            .filter(|c| c.member == "AddMatch" || c.member == "RemoveMatch")
            .map(|c| {
                format!(
                    "{}({}){}",
                    c.member,
                    c.args.first().and_then(|s| rule_id(s)).map(|r| RULE_NAMES[r]).unwrap_or("?"),
                    if c.answer == "ok" { "" } else { "!not-registered" }
                )
            })
            .collect();
        let reg = registered(&bus);
        let reg_named: Vec<String> = reg
            .iter()
            .map(|(s, n)| format!("{}x{n}", rule_id(s).map(|r| RULE_NAMES[r]).unwrap_or("?")))
            .collect();
        out.log.push(format!(
            "{} -> bus saw [{}]; registered {{{}}}; live {{SIG:{},NOC:{}}}",
            label(op),
            traffic.join(","),
            reg_named.join(","),
            model.live(0),
            model.live(1)
        ));
        for t in &traffic {
            out.outcomes.push(t.clone());
        }
        if traffic.is_empty() {
            out.outcomes.push("no-bus-traffic".into());
        }
        if model.live(0) + model.live(1) >= 2 {
            out.nontrivial = true;
        }

        // ---- oracle ----
        let op_kind = match op {
            Op::NewMs(_) => "new-stream",
            Op::NewProxySig => "new-proxy-stream",
            Op::Clone(_) => "clone",
            Op::Drop(_) => "drop",
            Op::AsyncDrop(_) => "async-drop",
            Op::NewPair(_) => "two-concurrent-new-streams",
            Op::DropThenNew(_) => "drop-then-new-stream-at-once",
            Op::NewRefused(_) => "new-stream-refused-by-the-bus",
        };
        let mut push = |clause: &'static str, kind: &str, r: Option<usize>, detail: String| {
            out.violations.push(StepViolation {
                step,
                clause,
                detail,
                feats: vec![
                    ("kind", kind.to_string()),
                    ("rule", r.map(|r| RULE_NAMES[r]).unwrap_or("unknown").to_string()),
                    ("op", op_kind.to_string()),
                    ("handle", h_kind.to_string()),
                    ("handle_origin", h_origin.to_string()),
                ],
            })
        };
        for (s, n) in &bus.double_adds[dadds0..] {
            push(
                "no-rule-added-twice",
                "added-twice",
                rule_id(s),
                format!("{}: AddMatch for `{s}` while it was already registered (now {n} times)", label(op)),
            );
        }
        for c in &bus.calls[calls0..] {
            if c.member == "RemoveMatch" && c.answer == "ok" {
                let r = c.args.first().and_then(|s| rule_id(s));
                if let Some(r) = r {
                    // The stream that `drop-then-new` is creating is not a subscriber before its
                    // creation returns: if the queued removal wins the race the bus sees
                    // RemoveMatch and then AddMatch again, which removes nothing that is in use
                    // (that the rule ends up registered is the registered-set clause's business).
                    let being_created = match op {
                        Op::DropThenNew(i) if model.hs[*i].kind == HK::Ms(r) => 1,
                        _ => 0,
                    };
                    if Model::is_signal_rule(r) && model.live(r) - being_created >= 1 {
                        removed_in_use.insert(r);
                        push(
                            "no-rule-removed-while-in-use",
                            "removed-in-use",
                            Some(r),
                            format!(
                                "{}: RemoveMatch({}) reached the bus although {} live subscriber(s) of that rule remain",
                                label(op),
                                RULE_NAMES[r],
                                model.live(r)
                            ),
                        );
                    }
                }
            }
        }
        for r in 0..4 {
            let n_reg: usize = reg.iter().filter(|(s, _)| rule_id(s) == Some(r)).map(|(_, n)| *n).sum();
            let want = Model::is_signal_rule(r) && model.live(r) >= 1;
            if want && n_reg == 0 && !removed_in_use.contains(&r) {
                push(
                    "registered-set-equals-live-rules",
                    "missing",
                    Some(r),
                    format!("after {}: rule {} has {} live subscriber(s) but is not registered with the bus", label(op), RULE_NAMES[r], model.live(r)),
                );
            }
            if !want && n_reg > 0 {
                push(
                    "registered-set-equals-live-rules",
                    "stale",
                    Some(r),
                    format!("after {}: rule {} is registered with the bus ({n_reg}x) but has no live signal subscriber", label(op), RULE_NAMES[r]),
                );
            }
        }
        for (s, _) in &reg {
            if rule_id(s).is_none() {
                push(
                    "registered-set-equals-live-rules",
                    "stale",
                    None,
                    format!("after {}: unknown rule `{s}` is registered with the bus", label(op)),
                );
            }
        }
        out.states.push(hash64(&(&model, &reg, out.log.last())));
    }
    if !bus.errors.is_empty() {
        out.machinery = Some(format!("fake bus: {:?}", bus.errors));
    }
    if w.hit_horizon {
        out.machinery = Some("pump did not reach quiescence".into());
    }
    drop(hs);
    drop(conn);
    out
}

fn enumerate(depth: usize, n_rules: usize) -> Vec<Vec<Op>> {
    fn rec(model: &Model, cur: &mut Vec<Op>, depth: usize, n_rules: usize, out: &mut Vec<Vec<Op>>) {
        if cur.len() == depth {
            out.push(cur.clone());
            return;
        }
        let mut ops: Vec<Op> = (0..n_rules).map(Op::NewMs).collect();
        ops.push(Op::NewProxySig);
        ops.extend((0..n_rules.min(2)).map(Op::NewPair));
        ops.extend((0..n_rules.min(2)).map(Op::NewRefused));
        for i in 0..model.hs.len() {
            ops.push(Op::Clone(i));
            ops.push(Op::Drop(i));
            ops.push(Op::AsyncDrop(i));
            ops.push(Op::DropThenNew(i));
        }
        for op in ops {
            if model.valid(&op) {
                let mut m = model.clone();
                m.apply(&op);
                cur.push(op);
                rec(&m, cur, depth, n_rules, out);
                cur.pop();
            }
        }
    }
    let mut out = vec![];
    rec(&Model::default(), &mut vec![], depth, n_rules, &mut out);
    out
}

fn to_violation(ops: &[Op], sv: &StepViolation, log: &[String], attributed: &str) -> Violation {
    let labels: Vec<String> = ops.iter().map(label).collect();
    let mut v = Violation::new(
        sv.clause,
        format!(
            "history [{}] step {}: {}{}",
            labels.join("; "),
            sv.step,
            sv.detail,
            if attributed == "message-stream-clone" {
                " — with every stream clone replaced by an independently created stream of the same rule the history satisfies the oracle, so the clone is not counted as a subscriber"
            } else {
                ""
            }
        ),
        json!({"ops": ops.iter().map(encode).collect::<Vec<_>>(), "labels": labels, "log": log}),
    );
    for (k, val) in &sv.feats {
        v = v.feat(k, val);
    }
    v.feat("attributed_to", attributed)
}

pub fn main(args: &Args) -> i32 {
    if let Some(p) = &args.replay {
        return replay(p);
    }
    let report = Report::new("C37", args.tier, args.seed, "model_checking");
    // (depth, number of MessageStream rules)
    let spaces: Vec<(usize, usize)> = args.tier.pick(vec![(4, 3), (5, 2)], vec![(5, 4), (6, 2)]);
    let totals = fakebus::TreeTotals::default();
    let mut spaces_json = vec![];
    for (depth, n_rules) in &spaces {
        let hists = enumerate(*depth, *n_rules);
        let n = hists.len();
        let t0 = std::time::Instant::now();
        fakebus::par_histories(&report, &totals, n, 64, |idx, acc| {
            let ops = &hists[idx];
            let res = run_history(ops, false);
            if let Some(m) = &res.machinery {
                vcommon::machinery_failure(&format!("C37: {m}"));
            }
            acc.evals += 1;
            acc.transitions += res.transitions;
            for o in &res.outcomes {
                acc.outcome(o);
            }
            let lh = hash64(&res.log);
            acc.logs.insert(lh);
            if res.nontrivial {
                acc.nontrivial.push(lh);
            }
            acc.states.extend(res.states.iter().cloned());
            if idx % (n / 6).max(1) == 0 {
                report.sample(json!({"history": ops.iter().map(label).collect::<Vec<_>>(), "log": res.log}));
            }
            if let Some(sv) = res.violations.first() {
                let has_clone = ops.iter().enumerate().any(|(j, o)| match o {
                    Op::Clone(i) => {
                        // is handle i a message stream at that point?
                        let mut m = Model::default();
                        for p in &ops[..j] {
                            m.apply(p);
                        }
                        matches!(m.hs[*i].kind, HK::Ms(_))
                    }
                    _ => false,
                });
                let attributed = if has_clone {
                    let d = run_history(ops, true);
                    if d.machinery.is_none() && !d.violations.iter().any(|x| x.step <= sv.step) {
                        "message-stream-clone"
                    } else {
                        "history"
                    }
                } else {
                    "history"
                };
                report.violation(to_violation(ops, sv, &res.log, attributed));
            }
        });
        spaces_json.push(json!({"depth": depth, "stream_rules": n_rules, "histories": n, "wall_s": (t0.elapsed().as_secs_f64()*1000.0).round()/1000.0}));
    }
    if args.tier == vcommon::Tier::Thorough {
        match fakebus::audit_against_daemon(2) {
            Ok(a) => report.set("fake_bus_audit", a),
            Err(fakebus::AuditError::Unavailable(e)) => {
                report.note(format!("fake-bus audit against dbus-daemon skipped: {e}"))
            }
            Err(fakebus::AuditError::Disagreement(e)) => {
                vcommon::machinery_failure(&format!("C37: fake bus disagrees with dbus-daemon: {e}"))
            }
        }
    }
    fakebus::finish_tree(
        &report,
        &totals,
        "distinct (reference subscriber model, bus registration multiset, observation) triples reached; informational, no merging is done",
    );
    report.set("spaces", json!(spaces_json));
    report.assume("the fake bus records AddMatch/RemoveMatch as a multiset like dbus-daemon does (audited in the thorough tier)");
    report.assume("each operation is pumped to quiescence on the default schedule; 'pending removals processed' = no task enabled and nothing left for the bus to answer");
    report.assume("a clone of a MessageStream counts as a live subscriber of its rule (it is a stream that can be polled)");
    report.finish(
        "all valid operation histories of exactly the stated depth (every prefix judged step by step); non-trivial = at some step two or more live subscribers exist",
        true,
    )
}

fn replay(path: &str) -> i32 {
    let art = vcommon::load_replay(path);
    let ops: Vec<Op> = art["replay"]["ops"]
        .as_array()
        .map(|a| a.iter().filter_map(decode).collect())
        .unwrap_or_default();
    println!("C37 replay, history:");
    for o in &ops {
        println!("  {}", label(o));
    }
    let res = run_history(&ops, false);
    println!("observations:");
    for l in &res.log {
        println!("  {l}");
    }
    if let Some(m) = &res.machinery {
        println!("machinery problem: {m}");
        return 2;
    }
    if res.violations.is_empty() {
        println!("no clause violated");
        return 0;
    }
    for v in &res.violations {
        println!("violated at step {}: {} — {}", v.step, v.clause, v.detail);
    }
    let d = run_history(&ops, true);
    println!(
        "same history with stream clones replaced by independent streams: {} violation(s)",
        d.violations.len()
    );
    1
}
