#!/usr/bin/env bash
# Runs the repository's pinned suite with the verification guard OFF and compares with BASELINE.json.
# usage: engines/baseline.sh [repo_dir]
REPO="${1:-/repo}"
LOG="$(mktemp /verif/.run/baseline.XXXXXX.log)"
mkdir -p /verif/.run
# BASELINE_FAST=1 skips the doc-tests (they are not part of BASELINE.json and dominate the run time)
EXTRA=""; [ "${BASELINE_FAST:-0}" = 1 ] && EXTRA="--lib --bins --tests"
( cd "$REPO" && env -u RUSTFLAGS cargo test --workspace --no-fail-fast --offline $EXTRA ) >"$LOG" 2>&1
python3 - "$LOG" <<'PY'
import json,re,sys
log=open(sys.argv[1]).read()
base=json.load(open('/root/.vp/BASELINE.json'))
ok=set(); failed=set()
cur=None
for line in log.splitlines():
    m=re.match(r'\s*Running (unittests )?(\S+) \((\S+)\)',line)
    if m:
        path=m.group(3); b=path.split('/')[-1]; cur=re.sub(r'-[0-9a-f]{16}$','',b); continue
    m=re.match(r'\s*Doc-tests (\S+)',line)
    if m: cur='doc:'+m.group(1); continue
    m=re.match(r'test (\S+) \.\.\. (ok|FAILED|ignored)',line)
    if m and cur and not cur.startswith('doc:'):
        (ok if m.group(2)=='ok' else failed if m.group(2)=='FAILED' else set()).add((cur,m.group(1)))
def found(name,pool):
    parts=name.split('::')
    for (bin_,t) in pool:
        for k in (1,2):
            if '::'.join(parts[k:])==t and (k==1 or parts[1]==bin_ or True):
                return True
    return False
missing=[n for n in base['stable_pass'] if not found(n,ok)]
print(f"baseline stable_pass={len(base['stable_pass'])} passed_now={len(base['stable_pass'])-len(missing)} missing={len(missing)} total_ok={len(ok)} total_failed={len(failed)}")
for m in missing: print("  MISSING:",m)
sys.exit(1 if missing else 0)
PY
rc=$?
rm -f "$LOG"
exit $rc
