#!/usr/bin/env bash
# Runs every claimed check's quick tier twice and compares the evidence (minus wall-clock fields
# and samples). Usage: engines/determinism.sh [ID ...]
cd /verif
ids="$@"; [ -n "$ids" ] || ids=$(cat engines/ready.txt)
for c in $ids; do
  ./check $c >/dev/null 2>&1; e1=$?
  cp evidence/$c.json /tmp/det-$c-1.json 2>/dev/null
  ./check $c >/dev/null 2>&1; e2=$?
  python3 - $c $e1 $e2 <<'PY'
import json,sys
c,e1,e2=sys.argv[1:4]
def norm(p):
    j=json.load(open(p))
    def strip(x):
        if isinstance(x,dict):
            return {k:strip(v) for k,v in x.items() if k not in ('wall_s','samples','wall','timing','wall_ms','elapsed_s','seed_dir_s') and not k.endswith('_s') and k!='replays'}
        if isinstance(x,list): return [strip(v) for v in x]
        return x
    return strip(j)
try:
    a=norm(f'/tmp/det-{c}-1.json'); b=norm(f'/verif/evidence/{c}.json')
except Exception as ex:
    print(c,'ERROR',ex); sys.exit()
if a==b and e1==e2=='0': print(c,'deterministic exit',e1)
else:
    def diff(x,y,path=''):
        out=[]
        if type(x)!=type(y): return [f'{path}: {str(x)[:60]} != {str(y)[:60]}']
        if isinstance(x,dict):
            for k in set(x)|set(y):
                if k not in x or k not in y: out.append(f'{path}/{k}: missing on one side')
                else: out+=diff(x[k],y[k],path+'/'+k)
        elif isinstance(x,list):
            if len(x)!=len(y): out.append(f'{path}: list length {len(x)} != {len(y)}')
            else:
                for i,(p,q) in enumerate(zip(x,y)): out+=diff(p,q,f'{path}[{i}]')
        elif x!=y: out.append(f'{path}: {str(x)[:60]} != {str(y)[:60]}')
        return out
    print(c,'DIFFERS exits',e1,e2, diff(a,b)[:6])
PY
  rm -f /tmp/det-$c-1.json
done
