#!/usr/bin/env bash
# Scratch copy of /repo (git worktree) + harness crates pointed at it, for trying property-breaking
# edits without touching /repo or /verif.
#   engines/scratch.sh new <name>      -> /tmp/vs-<name>/{repo,engines,out}
#   engines/scratch.sh run <name> <ID> [--tier t]   (builds the right engine there and runs the check)
#   engines/scratch.sh rm <name>
set -eu
cmd="$1"; name="$2"; shift 2
S="/tmp/vs-$name"
case "$cmd" in
  new)
    mkdir -p "$S"
    git -C /repo worktree add --detach "$S/repo" HEAD >/dev/null
    mkdir -p "$S/engines" "$S/out"
    rsync -a --exclude target /verif/engines/ "$S/engines/"
    find "$S/engines" -name Cargo.toml -o -name config.toml | xargs sed -i "s#\"/repo/#\"$S/repo/#g; s#/verif/.target/zb#$S/target/zb#g"
    cp /verif/KNOWN_FINDINGS.jsonl "$S/out/" 2>/dev/null || true
    echo "$S"
    ;;
  sync)  # refresh harness sources from /verif/engines (keeps repo edits)
    rsync -a --exclude target /verif/engines/ "$S/engines/"
    find "$S/engines" -name Cargo.toml -o -name config.toml | xargs sed -i "s#\"/repo/#\"$S/repo/#g; s#/verif/.target/zb#$S/target/zb#g"
    cp /verif/KNOWN_FINDINGS.jsonl "$S/out/" 2>/dev/null || true
    ;;
  run)
    id="$1"; shift
    export VERIF_ROOT="$S/out" CARGO_NET_OFFLINE=true
    case "$id" in
      C01|C02|C03|C04|C05|C06|C07|C08|C09|C10|C34)
        bins=""
        case "$id" in C04) cfgs="gv plain oaa gv-oaa";; C02|C09) cfgs="gv gv-oaa";; *) cfgs="gv";; esac
        for c in $cfgs; do
          case "$c" in plain) F="";; gv) F="gvariant";; oaa) F="option-as-array";; gv-oaa) F="gvariant,option-as-array";; esac
          out=$( cd "$S/engines/zv" && CARGO_TARGET_DIR="$S/target/zv-$c" cargo build --release --offline --features "$F" 2>&1 | grep -E "^error" -A 12 || true )
          if [ -n "$out" ]; then echo "$out"; echo "MACHINERY-FAILURE: build of zv ($c) failed; not running a stale binary"; exit 2; fi
          bins="$bins$c=$S/target/zv-$c/release/zv,"
        done
        if [ "$id" = C10 ]; then
          # the GUID part of C10 runs in the zb crate and is merged by zv
          ( cd "$S/engines/zb" && cargo build --release --offline --bin zb 2>&1 | grep -E "^error" -A 12 || true )
          "$S/target/zb/release/zb" C10G "$@" || exit 2
          export C10_GUID_PART="$S/out/.run/C10-guid-part.json"
        fi
        ZV_BINS="$bins" "$S/target/zv-gv/release/zv" "$id" "$@"
        ;;
      C35)
        VERIF_REPO="$S/repo" python3 "$S/engines/feat/run.py" C35 "$@"
        ;;
      *)
        B="${ZB_BIN:-zb}"
        out=$( cd "$S/engines/zb" && cargo build --release --offline --bin "$B" 2>&1 | grep -E "^error" -A 12 || true )
        if [ -n "$out" ]; then echo "$out"; echo "MACHINERY-FAILURE: build of zb failed; not running a stale binary"; exit 2; fi
        "$S/target/zb/release/$B" "$id" "$@"
        ;;
    esac
    ;;
  rm)
    git -C /repo worktree remove --force "$S/repo" 2>/dev/null || true
    rm -rf "$S"
    git -C /repo worktree prune
    ;;
esac
