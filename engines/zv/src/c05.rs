//! C05 — zvariant's GVariant bytes are exactly the normal form the GVariant specification
//! prescribes.
//!
//! Space: every type with ≤ N nodes (N = 3 quick, 4 thorough; `m` included) × every value of
//! `rv::values` (cap 64, base-choice beyond) × {LE, BE} × start offsets 0‥7, plus containers whose
//! size sweeps across the framing-offset width thresholds (payload lengths 240‥262 and
//! 65518‥65542 in twelve container shapes, and `as` with n short strings for n around 85 and 21845).
//! Oracle: bytes from the real `zvariant::to_bytes_for_signature(Context::new_gvariant(..))`
//! == `refgv::serialize`. The reference itself is audited against GLib (dlopen) over the same
//! corpus; a disagreement there is a machinery failure, not a verdict.
//!
//! This file also hosts the small private helpers that drive the real zvariant API for bare
//! (non-variant) types, shared by C07 and C04.

use serde_json::{json, Value as J};
#[allow(unused_imports)]
use vcommon::{hash64, Args, Report, Violation};

#[allow(unused_imports)]
use crate::rv::{self, FdTable, Ty, RV};

// ------------------------------------------------------------------------------------------
// helpers around the real API (shared with c07 / c04)
// ------------------------------------------------------------------------------------------

#[derive(Clone, Copy, Debug, PartialEq, Eq, Hash)]
pub(crate) enum Fmt {
    DBus,
    GV,
}

impl Fmt {
    pub fn name(self) -> &'static str {
        match self {
            Fmt::DBus => "dbus",
            Fmt::GV => "gvariant",
        }
    }
    pub fn parse(s: &str) -> Option<Fmt> {
        match s {
            "dbus" => Some(Fmt::DBus),
            "gvariant" => Some(Fmt::GV),
            _ => None,
        }
    }
}

/// Page faults are very expensive in the sandbox VM; keep freed memory inside the process so that
/// the large values of the threshold sweeps do not fault their pages in again and again.
pub(crate) fn keep_freed_memory() {
    unsafe {
        libc::mallopt(libc::M_MMAP_THRESHOLD, 1 << 30);
        libc::mallopt(libc::M_TRIM_THRESHOLD, i32::MAX);
        libc::mallopt(libc::M_TOP_PAD, 64 << 20);
    }
}

pub(crate) fn gv_enabled() -> bool {
    cfg!(feature = "gvariant")
}

pub(crate) fn ctx(fmt: Fmt, be: bool, pos: usize) -> Option<zvariant::serialized::Context> {
    let e = if be { zvariant::BE } else { zvariant::LE };
    match fmt {
        Fmt::DBus => Some(zvariant::serialized::Context::new_dbus(e, pos)),
        #[cfg(feature = "gvariant")]
        Fmt::GV => Some(zvariant::serialized::Context::new_gvariant(e, pos)),
        #[cfg(not(feature = "gvariant"))]
        Fmt::GV => None,
    }
}

/// Encode the *bare* value `v` (type = its own signature, not wrapped in a variant) with the real
/// serializer. `Value::Value(inner)` is the bare type `v` whose payload is `inner`.
pub(crate) fn real_encode(
    v: &zvariant::Value<'_>,
    c: zvariant::serialized::Context,
) -> zvariant::Result<zvariant::serialized::Data<'static, 'static>> {
    use zvariant::{to_bytes_for_signature as tb, Value as V};
    let sig = match v {
        V::Value(_) => zvariant::Signature::Variant,
        other => other.value_signature().clone(),
    };
    match v {
        V::U8(x) => tb(c, sig, x),
        V::Bool(x) => tb(c, sig, x),
        V::I16(x) => tb(c, sig, x),
        V::U16(x) => tb(c, sig, x),
        V::I32(x) => tb(c, sig, x),
        V::U32(x) => tb(c, sig, x),
        V::I64(x) => tb(c, sig, x),
        V::U64(x) => tb(c, sig, x),
        V::F64(x) => tb(c, sig, x),
        V::Str(x) => tb(c, sig, x),
        V::Signature(x) => tb(c, sig, x),
        V::ObjectPath(x) => tb(c, sig, x),
        V::Value(x) => tb(c, sig, &**x),
        V::Array(x) => tb(c, sig, x),
        V::Dict(x) => tb(c, sig, x),
        V::Structure(x) => tb(c, sig, x),
        #[cfg(feature = "gvariant")]
        V::Maybe(x) => tb(c, sig, x),
        V::Fd(x) => tb(c, sig, x),
    }
}

pub(crate) fn err_class(e: &zvariant::Error) -> String {
    use zvariant::Error as E;
    match e {
        E::Message(_) => "Message".into(),
        E::InputOutput(_) => "InputOutput".into(),
        E::IncorrectType => "IncorrectType".into(),
        E::Utf8(_) => "Utf8".into(),
        E::PaddingNot0(_) => "PaddingNot0".into(),
        E::UnknownFd => "UnknownFd".into(),
        E::MissingFramingOffset => "MissingFramingOffset".into(),
        E::IncompatibleFormat(..) => "IncompatibleFormat".into(),
        E::SignatureMismatch(..) => "SignatureMismatch".into(),
        E::OutOfBounds => "OutOfBounds".into(),
        E::MaxDepthExceeded(_) => "MaxDepthExceeded".into(),
        E::SignatureParse(_) => "SignatureParse".into(),
        E::EmptyStructure => "EmptyStructure".into(),
        E::InvalidObjectPath => "InvalidObjectPath".into(),
        #[allow(unreachable_patterns)]
        _ => "Other".into(),
    }
}

// JSON form of the harness value tree, for replay artefacts.
pub(crate) fn rv_to_json(v: &RV) -> J {
    match v {
        RV::Y(x) => json!({"y": x}),
        RV::B(x) => json!({"b": x}),
        RV::N(x) => json!({"n": x}),
        RV::Q(x) => json!({"q": x}),
        RV::I(x) => json!({"i": x}),
        RV::U(x) => json!({"u": x}),
        RV::X(x) => json!({"x": x.to_string()}),
        RV::T(x) => json!({"t": x.to_string()}),
        RV::D(x) => json!({"d": format!("{x:016x}")}),
        RV::S(x) => json!({"s": x}),
        RV::O(x) => json!({"o": x}),
        RV::G(x) => json!({"g": x}),
        RV::H(x) => json!({"h": x}),
        RV::V(b) => json!({"v": [b.0.sig(), rv_to_json(&b.1)]}),
        RV::Array(e, xs) => {
            // long byte arrays are stored run-length encoded
            if *e == Ty::Y && xs.len() > 32 && xs.iter().all(|x| *x == xs[0]) {
                if let RV::Y(b) = xs[0] {
                    return json!({"ay_fill": [b, xs.len()]});
                }
            }
            json!({"a": [e.sig(), xs.iter().map(rv_to_json).collect::<Vec<_>>()]})
        }
        RV::Dict(k, vt, xs) => json!({"e": [k.sig(), vt.sig(),
            xs.iter().map(|(a, b)| json!([rv_to_json(a), rv_to_json(b)])).collect::<Vec<_>>()]}),
        RV::Struct(xs) => json!({"r": xs.iter().map(rv_to_json).collect::<Vec<_>>()}),
        RV::Maybe(e, None) => json!({"m": [e.sig()]}),
        RV::Maybe(e, Some(x)) => json!({"m": [e.sig(), rv_to_json(x)]}),
    }
}

pub(crate) fn rv_from_json(j: &J) -> Option<RV> {
    let o = j.as_object()?;
    let (k, v) = o.iter().next()?;
    Some(match k.as_str() {
        "y" => RV::Y(v.as_u64()? as u8),
        "b" => RV::B(v.as_bool()?),
        "n" => RV::N(v.as_i64()? as i16),
        "q" => RV::Q(v.as_u64()? as u16),
        "i" => RV::I(v.as_i64()? as i32),
        "u" => RV::U(v.as_u64()? as u32),
        "x" => RV::X(v.as_str()?.parse().ok()?),
        "t" => RV::T(v.as_str()?.parse().ok()?),
        "d" => RV::D(u64::from_str_radix(v.as_str()?, 16).ok()?),
        "s" => RV::S(v.as_str()?.to_string()),
        "o" => RV::O(v.as_str()?.to_string()),
        "g" => RV::G(v.as_str()?.to_string()),
        "h" => RV::H(v.as_u64()? as u32),
        "v" => {
            let a = v.as_array()?;
            RV::V(Box::new((rv::parse_ty(a[0].as_str()?)?, rv_from_json(&a[1])?)))
        }
        "ay_fill" => {
            let a = v.as_array()?;
            RV::Array(Ty::Y, vec![RV::Y(a[0].as_u64()? as u8); a[1].as_u64()? as usize])
        }
        "a" => {
            let a = v.as_array()?;
            RV::Array(
                rv::parse_ty(a[0].as_str()?)?,
                a[1].as_array()?.iter().map(rv_from_json).collect::<Option<Vec<_>>>()?,
            )
        }
        "e" => {
            let a = v.as_array()?;
            RV::Dict(
                rv::parse_ty(a[0].as_str()?)?,
                rv::parse_ty(a[1].as_str()?)?,
                a[2].as_array()?
                    .iter()
                    .map(|p| Some((rv_from_json(&p[0])?, rv_from_json(&p[1])?)))
                    .collect::<Option<Vec<_>>>()?,
            )
        }
        "r" => RV::Struct(v.as_array()?.iter().map(rv_from_json).collect::<Option<Vec<_>>>()?),
        "m" => {
            let a = v.as_array()?;
            let e = rv::parse_ty(a[0].as_str()?)?;
            match a.get(1) {
                None => RV::Maybe(e, None),
                Some(x) => RV::Maybe(e, Some(Box::new(rv_from_json(x)?))),
            }
        }
        _ => return None,
    })
}

// ------------------------------------------------------------------------------------------
// the check
// ------------------------------------------------------------------------------------------

#[cfg(not(feature = "gvariant"))]
pub fn main(_args: &Args) -> i32 {
    vcommon::machinery_failure("C05 needs the gvariant build of zv")
}

#[cfg(feature = "gvariant")]
pub fn main(args: &Args) -> i32 {
    gv::main(args)
}

#[cfg(feature = "gvariant")]
mod gv {
    use super::*;
    use crate::refgv::{self, Quirks, QUIRK_NAMES};
    use std::sync::atomic::{AtomicU64, Ordering};
    use std::sync::Mutex;

    fn ay(len: usize, b: u8) -> RV {
        RV::Array(Ty::Y, vec![RV::Y(b); len])
    }
    fn s(len: usize) -> RV {
        RV::S("k".repeat(len))
    }

    /// Containers around a bulk payload `p` (a long `s` or `ay`); every shape has at least one
    /// framing offset or terminator whose position/width depends on the payload's size.
    pub fn threshold_shapes(p: &RV) -> Vec<(String, RV)> {
        let pt = p.ty();
        let ps = pt.sig();
        let p = || p.clone();
        let small = || match &pt {
            Ty::S => s(2),
            _ => ay(2, 2),
        };
        let py = Ty::Struct(vec![pt.clone(), Ty::Y]);
        vec![
            (format!("({ps}y)"), RV::Struct(vec![p(), RV::Y(2)])),
            (format!("a{ps}/1"), RV::Array(pt.clone(), vec![p()])),
            (format!("a{ps}/2"), RV::Array(pt.clone(), vec![p(), small()])),
            (format!("a{{s{ps}}}"), RV::Dict(Ty::S, pt.clone(), vec![(RV::S("k".into()), p())])),
            (format!("a{{y{ps}}}"), RV::Dict(Ty::Y, pt.clone(), vec![(RV::Y(1), p())])),
            (format!("({ps}{ps})"), RV::Struct(vec![p(), small()])),
            (format!("({ps}sy)"), RV::Struct(vec![p(), s(1), RV::Y(9)])),
            (
                format!("(sa{ps})"),
                RV::Struct(vec![s(3), RV::Array(pt.clone(), vec![p(), small()])]),
            ),
            (format!("av<{ps}>"), RV::Array(Ty::V, vec![RV::V(Box::new((pt.clone(), p())))])),
            (format!("m{ps}"), RV::Maybe(pt.clone(), Some(Box::new(p())))),
            (
                format!("a({ps}y)"),
                RV::Array(
                    py.clone(),
                    vec![RV::Struct(vec![p(), RV::Y(1)]), RV::Struct(vec![small(), RV::Y(2)])],
                ),
            ),
            (
                format!("a{{s({ps}y)}}"),
                RV::Dict(Ty::S, py.clone(), vec![(s(2), RV::Struct(vec![p(), RV::Y(1)]))]),
            ),
        ]
    }

    /// Shapes whose bulk is a dict-entry *key* (keys are basic, so only strings).
    fn key_shapes(l: usize) -> Vec<(String, RV)> {
        vec![
            ("a{sy}/key".into(), RV::Dict(Ty::S, Ty::Y, vec![(s(l), RV::Y(7))])),
            ("a{ss}/key".into(), RV::Dict(Ty::S, Ty::S, vec![(s(l), s(1))])),
            (
                "a{sx}/key".into(),
                RV::Dict(Ty::S, Ty::X, vec![(s(l), RV::X(-2)), (s(1), RV::X(3))]),
            ),
        ]
    }

    /// Hand-picked values of types beyond the node bound that exercise rule combinations the
    /// bounded enumeration cannot reach (empty variable-size members, nested maybes, nested
    /// fixed-size structures, variants of different alignment in one array).
    fn extras() -> Vec<RV> {
        let ay_t = Ty::Array(Box::new(Ty::Y));
        let my_t = Ty::Maybe(Box::new(Ty::Y));
        let ny = |a: i16, b: u8| RV::Struct(vec![RV::N(a), RV::Y(b)]);
        let ny_t = Ty::Struct(vec![Ty::N, Ty::Y]);
        let just = |t: Ty, v: RV| RV::Maybe(t, Some(Box::new(v)));
        let var = |v: RV| RV::V(Box::new((v.ty(), v)));
        vec![
            RV::Struct(vec![ay(0, 0), ay(0, 0)]),
            RV::Struct(vec![ay(1, 5), ay(0, 0)]),
            RV::Struct(vec![ay(0, 0), ay(1, 5)]),
            RV::Struct(vec![ay(0, 0), ay(0, 0), ay(0, 0)]),
            RV::Struct(vec![RV::Maybe(Ty::Y, None), RV::Maybe(Ty::Y, None)]),
            RV::Struct(vec![RV::Array(Ty::S, vec![]), RV::Array(Ty::S, vec![])]),
            RV::Struct(vec![RV::Array(Ty::S, vec![]), RV::Maybe(Ty::S, None), RV::Y(1)]),
            RV::Array(
                Ty::Struct(vec![ay_t.clone(), ay_t.clone()]),
                vec![RV::Struct(vec![ay(0, 0), ay(0, 0)]), RV::Struct(vec![ay(0, 0), ay(0, 0)])],
            ),
            RV::Maybe(my_t.clone(), None),
            just(my_t.clone(), RV::Maybe(Ty::Y, None)),
            just(my_t.clone(), just(Ty::Y, RV::Y(1))),
            just(Ty::Maybe(Box::new(Ty::S)), RV::Maybe(Ty::S, None)),
            just(Ty::Maybe(Box::new(Ty::S)), just(Ty::S, s(1))),
            RV::Array(
                Ty::Maybe(Box::new(my_t.clone())),
                vec![just(my_t.clone(), RV::Maybe(Ty::Y, None)), RV::Maybe(my_t.clone(), None)],
            ),
            RV::Struct(vec![ny(1, 2), RV::Y(3)]),
            RV::Struct(vec![RV::Y(3), ny(1, 2)]),
            RV::Array(
                Ty::Struct(vec![ny_t.clone(), Ty::Y]),
                vec![RV::Struct(vec![ny(1, 2), RV::Y(3)]), RV::Struct(vec![ny(4, 5), RV::Y(6)])],
            ),
            RV::Struct(vec![RV::Struct(vec![RV::Y(1), RV::X(2)]), RV::Y(3)]),
            RV::Dict(Ty::S, ny_t.clone(), vec![(s(1), ny(1, 2)), (s(2), ny(3, 4))]),
            RV::Dict(Ty::X, ny_t.clone(), vec![(RV::X(1), ny(1, 2)), (RV::X(2), ny(3, 4))]),
            RV::Struct(vec![var(RV::Struct(vec![RV::X(1), RV::Y(2)]))]),
            RV::Array(Ty::V, vec![var(RV::Y(1)), var(RV::X(2)), var(s(2)), var(ny(1, 2))]),
            RV::Dict(
                Ty::S,
                Ty::V,
                vec![(RV::S("a".into()), var(RV::U(1))), (RV::S("bc".into()), var(s(1)))],
            ),
            RV::Struct(vec![s(1), RV::Maybe(Ty::X, Some(Box::new(RV::X(1)))), ay(2, 1), RV::N(7)]),
            RV::Maybe(
                Ty::Struct(vec![Ty::X, Ty::Y]),
                Some(Box::new(RV::Struct(vec![RV::X(1), RV::Y(2)]))),
            ),
            RV::Array(
                Ty::Maybe(Box::new(Ty::Struct(vec![Ty::X, Ty::Y]))),
                vec![
                    just(Ty::Struct(vec![Ty::X, Ty::Y]), RV::Struct(vec![RV::X(1), RV::Y(2)])),
                    RV::Maybe(Ty::Struct(vec![Ty::X, Ty::Y]), None),
                ],
            ),
        ]
    }

    /// `as` with `n` one-character strings: body 2n, n offsets.
    fn many_strings(n: usize) -> RV {
        RV::Array(Ty::S, vec![RV::S("a".into()); n])
    }

    struct Case {
        label: String,
        v: RV,
        threshold: bool,
    }

    /// Total sizes around which the framing-offset width changes (255 | 256, 65535 | 65536).
    fn near_threshold(total: usize) -> bool {
        (251..=260).contains(&total) || (65531..=65540).contains(&total)
    }

    fn corpus(tier: vcommon::Tier, capped: &mut bool) -> Vec<Case> {
        let n = tier.pick(3, 4);
        let dom = rv::Domain::standard(64);
        let mut out = vec![];
        // threshold-crossing containers first (they are the expensive ones): for every shape, every
        // payload length whose *total* normal-form size lies within ±5 of a width threshold.
        // Bulk payload: a long string everywhere; a long `ay` for all shapes around 255/256 and for
        // the totals 65534‥65537 (big element trees are expensive in this sandbox).
        let mut ls: Vec<usize> = (225..=262).collect();
        ls.extend(65490..=65542);
        let push = |name: String, l: usize, v: RV, only_core: bool, out: &mut Vec<Case>| {
            let total = refgv::normal_form(&v, false).len();
            let keep = if only_core {
                (65534..=65537).contains(&total)
            } else {
                near_threshold(total)
            };
            if keep {
                out.push(Case {
                    label: format!("{name} L={l} total={total}"),
                    v,
                    threshold: true,
                });
            }
        };
        for &l in &ls {
            for (name, v) in threshold_shapes(&s(l)) {
                push(name, l, v, false, &mut out);
            }
            for (name, v) in key_shapes(l) {
                push(name, l, v, false, &mut out);
            }
            if l < 1000 {
                for (name, v) in threshold_shapes(&ay(l, 1)) {
                    push(name, l, v, false, &mut out);
                }
            } else if (65515..=65536).contains(&l) {
                // three shapes only, totals 65534..=65537
                let big = ay(l, 1);
                let aay = Ty::Array(Box::new(Ty::Y));
                let shapes = vec![
                    ("(ayy)".to_string(), RV::Struct(vec![big.clone(), RV::Y(2)])),
                    ("aay/2".to_string(), RV::Array(aay.clone(), vec![big.clone(), ay(2, 2)])),
                    (
                        "a{say}".to_string(),
                        RV::Dict(Ty::S, aay.clone(), vec![(RV::S("k".into()), big)]),
                    ),
                ];
                for (name, v) in shapes {
                    push(name, l, v, true, &mut out);
                }
            }
        }
        // many offsets: width changes at 3n ≤ 255 (n = 85|86) and 4n ≤ 65535 (n = 16383|16384)
        for nn in [83usize, 84, 85, 86, 87, 16382, 16383, 16384, 16385] {
            out.push(Case {
                label: format!("as/n n={nn}"),
                v: many_strings(nn),
                threshold: true,
            });
        }
        for v in extras() {
            out.push(Case {
                label: format!("extra {}", v.ty().sig()),
                v,
                threshold: false,
            });
        }
        for ty in rv::all_types(n, true) {
            for v in rv::values(&ty, &dom, capped) {
                out.push(Case {
                    label: ty.sig(),
                    v,
                    threshold: false,
                });
            }
        }
        out
    }

    pub enum Obs {
        Bytes(Vec<u8>),
        Error(String),
        Panic(String),
    }

    /// Build the zvariant value once; also read it back to learn the order the implementation
    /// gives to dict entries.
    pub fn prepare<'f>(v: &RV, fds: &'f FdTable) -> Result<(zvariant::Value<'f>, RV), String> {
        let zv = rv::to_value(v, fds).map_err(|e| format!("to_value: {e}"))?;
        use std::os::fd::AsRawFd;
        // `Value::Fd` built by `to_value` borrows the table's descriptors, so raw numbers identify them
        let fd_index =
            |raw: i32| -> u32 { fds.fds.iter().position(|f| f.as_raw_fd() == raw).unwrap_or(0) as u32 };
        let ordered = rv::from_value(&zv, &fd_index).map_err(|e| format!("from_value: {e}"))?;
        Ok((zv, ordered))
    }

    /// Run the real encoder on a prepared value.
    pub fn encode(zv: &zvariant::Value<'_>, be: bool, off: usize) -> Obs {
        let c = ctx(Fmt::GV, be, off).unwrap();
        match vcommon::catch(|| real_encode(zv, c)) {
            Err(p) => Obs::Panic(format!("{p} at {}", vcommon::last_panic_location())),
            Ok(Err(e)) => Obs::Error(format!("{}: {e}", err_class(&e))),
            Ok(Ok(d)) => Obs::Bytes(d.bytes().to_vec()),
        }
    }

    /// Smallest set of named deviations under which the reference reproduces `real` exactly.
    pub fn explain(ordered: &RV, be: bool, off: usize, real: &[u8]) -> Option<Vec<&'static str>> {
        let mut masks: Vec<u32> = (1..(1u32 << QUIRK_NAMES.len())).collect();
        masks.sort_by_key(|m| (m.count_ones(), *m));
        for m in masks {
            if refgv::serialize_q(ordered, be, off, Quirks::from_mask(m)) == real {
                return Some(
                    (0..QUIRK_NAMES.len())
                        .filter(|i| m & (1 << i) != 0)
                        .map(|i| QUIRK_NAMES[i])
                        .collect(),
                );
            }
        }
        None
    }

    fn clause_of(dev: &str) -> &'static str {
        match dev {
            "bool-as-u32" => "fixed-size-layout",
            "no-trailing-padding-fixed-struct" => "fixed-size-padding",
            "dict-entry-offset-width-ignores-offset" => "framing-offset-size",
            "empty-array-body-drops-offsets" | "empty-struct-body-drops-offsets" => "framing-offset-positions",
            _ => "normal-form-bytes",
        }
    }

    fn first_diff(a: &[u8], b: &[u8]) -> usize {
        a.iter().zip(b).position(|(x, y)| x != y).unwrap_or(a.len().min(b.len()))
    }

    /// A value ready to be encoded many times.
    pub struct Prepared<'f> {
        pub zv: zvariant::Value<'f>,
        /// the value with dict entries in the order the implementation emits them
        pub ordered: RV,
        align: usize,
        /// normal form per byte order (LE, BE), without leading padding
        nf: [Vec<u8>; 2],
    }

    impl<'f> Prepared<'f> {
        pub fn new(v: &RV, fds: &'f FdTable) -> Result<Self, String> {
            let (zv, ordered) = prepare(v, fds)?;
            let nf = [refgv::normal_form(&ordered, false), refgv::normal_form(&ordered, true)];
            let align = refgv::align(&ordered.ty());
            Ok(Prepared { zv, ordered, align, nf })
        }
        pub fn want(&self, be: bool, off: usize) -> Vec<u8> {
            let mut out = vec![0u8; (self.align - off % self.align) % self.align];
            out.extend_from_slice(&self.nf[be as usize]);
            out
        }
    }

    /// Evaluate one (value, endian, offset); returns the outcome class.
    fn eval_case(report: &Report, label: &str, v: &RV, p: &Prepared<'_>, be: bool, off: usize) -> String {
        let payload = || json!({"value": rv_to_json(v), "be": be, "offset": off});
        match encode(&p.zv, be, off) {
            Obs::Panic(msg) => {
                report.violation(
                    Violation::new(
                        "encodes-without-panic",
                        format!("{label} {} be={be} offset={off}: encoder panicked: {msg}", v.show_short()),
                        payload(),
                    )
                    .feat("observed", "panic")
                    .feat("where", msg.rsplit(" at ").next().unwrap_or("")),
                );
                "panic".into()
            }
            Obs::Error(e) => {
                report.violation(
                    Violation::new(
                        "encodes-well-typed-value",
                        format!("{label} {} be={be} offset={off}: encoder returned {e}", v.show_short()),
                        payload(),
                    )
                    .feat("observed", "error")
                    .feat("error", e.split(':').next().unwrap_or("")),
                );
                "error".into()
            }
            Obs::Bytes(real) => {
                let want = p.want(be, off);
                if real == want {
                    return "equal".into();
                }
                let d = first_diff(&real, &want);
                match explain(&p.ordered, be, off, &real) {
                    Some(devs) => {
                        for dev in &devs {
                            report.violation(
                                Violation::new(
                                    clause_of(dev),
                                    format!(
                                        "{label} {} be={be} offset={off}: bytes differ from normal form at byte {d} (real {} bytes: {}, normal form {} bytes: {}); reproduced exactly by the reference with deviation(s) {:?}",
                                        v.show_short(), real.len(), refgv::short_hex(&real), want.len(), refgv::short_hex(&want), devs
                                    ),
                                    payload(),
                                )
                                .feat("deviation", dev),
                            );
                        }
                        format!("mismatch:{}", devs.join("+"))
                    }
                    None => {
                        report.violation(
                            Violation::new(
                                "normal-form-bytes",
                                format!(
                                    "{label} {} be={be} offset={off}: bytes differ from normal form at byte {d} (real {} bytes: {}, normal form {} bytes: {})",
                                    v.show_short(), real.len(), refgv::short_hex(&real), want.len(), refgv::short_hex(&want)
                                ),
                                payload(),
                            )
                            .feat("deviation", "unexplained")
                            .feat("type", p.ordered.ty().sig()),
                        );
                        "mismatch:unexplained".into()
                    }
                }
            }
        }
    }

    trait ShowShort {
        fn show_short(&self) -> String;
    }
    impl ShowShort for RV {
        fn show_short(&self) -> String {
            let s = self.show();
            if s.len() > 120 {
                let cut = (0..=100).rev().find(|i| s.is_char_boundary(*i)).unwrap_or(0);
                format!("{}…({} chars)", &s[..cut], s.len())
            } else {
                s
            }
        }
    }

    fn layout_class(v: &RV) -> &'static str {
        let t = v.ty();
        if !t.has_container() {
            return "basic";
        }
        if refgv::fixed_size(&t).is_some() {
            "fixed-size-container"
        } else {
            "variable-size-container"
        }
    }

    /// Unit self-test of the reference on encodings quoted in the GVariant specification's
    /// examples section (known by heart; also re-checked by the GLib audit).
    fn spec_examples() -> Result<(), String> {
        let t = |v: RV, want: &[u8]| -> Result<(), String> {
            let got = refgv::normal_form(&v, false);
            if got != want {
                return Err(format!(
                    "spec example {}: reference gives {} expected {}",
                    v.show(),
                    vcommon::hex(&got),
                    vcommon::hex(want)
                ));
            }
            Ok(())
        };
        // ('foo', -1) of type (si)
        t(
            RV::Struct(vec![RV::S("foo".into()), RV::I(-1)]),
            &[b'f', b'o', b'o', 0, 0xff, 0xff, 0xff, 0xff, 4],
        )?;
        // [('hi', -2), ('bye', -1)] of type a(si)
        t(
            RV::Array(
                Ty::Struct(vec![Ty::S, Ty::I]),
                vec![
                    RV::Struct(vec![RV::S("hi".into()), RV::I(-2)]),
                    RV::Struct(vec![RV::S("bye".into()), RV::I(-1)]),
                ],
            ),
            &[
                b'h', b'i', 0, 0, 0xfe, 0xff, 0xff, 0xff, 3, 0, 0, 0, b'b', b'y', b'e', 0, 0xff, 0xff, 0xff,
                0xff, 4, 9, 21,
            ],
        )?;
        // ['i', 'can', 'has', 'strings?'] of type as
        t(
            RV::Array(
                Ty::S,
                ["i", "can", "has", "strings?"].iter().map(|x| RV::S(x.to_string())).collect(),
            ),
            b"i\0can\0has\0strings?\0\x02\x06\x0a\x13",
        )?;
        // ((byte 0x70, 'ican'), (byte 0x70? ...)) -> use the (yy)/(iy) padding examples:
        // (byte 0x70, 0x60) → 70 60 ; (int32 96, byte 0x70) → 60 00 00 00 70 00 00 00
        t(RV::Struct(vec![RV::I(96), RV::Y(0x70)]), &[0x60, 0, 0, 0, 0x70, 0, 0, 0])?;
        // [(int32 96, byte 0x70), (int32 648, byte 0xf7)] of type a(iy)
        t(
            RV::Array(
                Ty::Struct(vec![Ty::I, Ty::Y]),
                vec![
                    RV::Struct(vec![RV::I(96), RV::Y(0x70)]),
                    RV::Struct(vec![RV::I(648), RV::Y(0xf7)]),
                ],
            ),
            &[0x60, 0, 0, 0, 0x70, 0, 0, 0, 0x88, 2, 0, 0, 0xf7, 0, 0, 0],
        )?;
        // [byte 0x04, 0x05, 0x06, 0x07] → 04 05 06 07; [true,false,...] one byte each
        t(
            RV::Array(Ty::B, vec![RV::B(true), RV::B(false), RV::B(false), RV::B(true), RV::B(true)]),
            &[1, 0, 0, 1, 1],
        )?;
        // just 'hello world' of type ms → string + extra zero
        t(
            RV::Maybe(Ty::S, Some(Box::new(RV::S("hello world".into())))),
            b"hello world\0\0",
        )?;
        // ((int16 1? ..  nested structure example: ((byte 0x70? 'ican'), ... ) skip; dict entry
        // {'a key', <int32 514>} of type {sv}: tested through a{sv} with one entry
        t(
            RV::Dict(
                Ty::S,
                Ty::V,
                vec![(RV::S("a key".into()), RV::V(Box::new((Ty::I, RV::I(514)))))],
            ),
            // entry: "a key\0" pad to 8, 02 02 00 00, 00, 'i', offset 06; array offset = 15
            &[b'a', b' ', b'k', b'e', b'y', 0, 0, 0, 2, 2, 0, 0, 0, b'i', 6, 15],
        )?;
        Ok(())
    }

    fn audit(report: &Report, cases: &[Case]) {
        let g = match refgv::GLib::open() {
            Ok(g) => g,
            Err(e) => {
                report.note(format!("GLib audit of refgv skipped: {e}"));
                return;
            }
        };
        let audited = AtomicU64::new(0);
        let skipped = AtomicU64::new(0);
        let fail: Mutex<Option<String>> = Mutex::new(None);
        vcommon::par_for(cases.len(), 1, |i| {
            if fail.lock().unwrap().is_some() {
                return;
            }
            match refgv::audit_one(&g, &cases[i].v) {
                Ok(true) => {
                    audited.fetch_add(1, Ordering::Relaxed);
                }
                Ok(false) => {
                    skipped.fetch_add(1, Ordering::Relaxed);
                }
                Err(e) => {
                    *fail.lock().unwrap() = Some(e);
                }
            }
        });
        if let Some(e) = fail.lock().unwrap().clone() {
            vcommon::machinery_failure(&format!("C05: reference model disagrees with GLib: {e}"));
        }
        report.set(
            "glib_audit",
            json!({"values_agreeing_in_both_byte_orders_and_normal_form": audited.load(Ordering::Relaxed),
                   "skipped_not_expressible_in_text_form": skipped.load(Ordering::Relaxed)}),
        );
    }

    pub fn replay(path: &str) -> i32 {
        let art = vcommon::load_replay(path);
        let r = &art["replay"];
        let Some(v) = rv_from_json(&r["value"]) else {
            vcommon::machinery_failure("C05 replay: cannot read value")
        };
        let be = r["be"].as_bool().unwrap_or(false);
        let off = r["offset"].as_u64().unwrap_or(0) as usize;
        let fds = FdTable::new(v.max_fd_index().map(|i| i as usize + 1).unwrap_or(0));
        println!("replay C05: type {} be={be} offset={off}", v.ty().sig());
        let p = match Prepared::new(&v, &fds) {
            Ok(p) => p,
            Err(e) => vcommon::machinery_failure(&e),
        };
        match encode(&p.zv, be, off) {
            Obs::Panic(p) => {
                println!("observed: PANIC {p}");
                1
            }
            Obs::Error(e) => {
                println!("observed: error {e}");
                1
            }
            Obs::Bytes(real) => {
                let want = refgv::serialize(&p.ordered, be, off);
                println!("real        ({} bytes): {}", real.len(), refgv::short_hex(&real));
                println!("normal form ({} bytes): {}", want.len(), refgv::short_hex(&want));
                if real == want {
                    println!("observed: equal — property holds on this case");
                    0
                } else {
                    println!(
                        "observed: MISMATCH at byte {}; deviation(s): {:?}",
                        first_diff(&real, &want),
                        explain(&p.ordered, be, off, &real)
                    );
                    1
                }
            }
        }
    }

    pub fn main(args: &Args) -> i32 {
        if let Some(p) = &args.replay {
            return replay(p);
        }
        let report = Report::new("C05", args.tier, args.seed, "exploration");
        keep_freed_memory();
        if let Err(e) = spec_examples() {
            vcommon::machinery_failure(&format!("C05: reference self-test failed: {e}"));
        }
        let mut capped = false;
        let cases = corpus(args.tier, &mut capped);
        report.set("values", json!(cases.len()));
        report.set(
            "types",
            json!(rv::all_types(args.tier.pick(3, 4), true).len()),
        );
        report.set("corpus_build_wall_s", json!((report.elapsed_s() * 10.0).round() / 10.0));
        let t0 = std::time::Instant::now();
        audit(&report, &cases);
        report.set("glib_audit_wall_s", json!((t0.elapsed().as_secs_f64() * 10.0).round() / 10.0));

        let offsets: Vec<usize> = (0..8).collect();
        let fds = FdTable::new(8);
        let n_thr = AtomicU64::new(0);
        vcommon::par_for(cases.len(), 1, |i| {
            let c = &cases[i];
            let fds = &fds;
            let t_case = std::time::Instant::now();
            let nontrivial = c.v.ty().has_container();
            if nontrivial {
                report.nontrivial(hash64(&(c.v.ty().sig(), c.v.show())));
            }
            if c.threshold {
                n_thr.fetch_add(1, Ordering::Relaxed);
            }
            let mut classes: std::collections::BTreeMap<String, u64> = Default::default();
            let p = match Prepared::new(&c.v, fds) {
                Ok(p) => p,
                Err(e) => vcommon::machinery_failure(&format!("C05: {}: {e}", c.label)),
            };
            for be in [false, true] {
                for off in &offsets {
                    let cls = eval_case(&report, &c.label, &c.v, &p, be, *off);
                    *classes.entry(format!("{}/{}", layout_class(&c.v), cls)).or_insert(0) += 1;
                }
            }
            report.eval(16);
            if std::env::var_os("VERIF_DEBUG").is_some() && t_case.elapsed().as_millis() > 200 {
                eprintln!("slow case {} ms: {}", t_case.elapsed().as_millis(), c.label);
            }
            for (k, n) in classes {
                report.outcome_n(&k, n);
            }
        });
        // a few concrete cases for the evidence file
        for c in cases.iter().filter(|c| c.v.ty().has_container()).step_by(cases.len() / 10 + 1) {
            let Ok(p) = Prepared::new(&c.v, &fds) else { continue };
            if let Obs::Bytes(real) = encode(&p.zv, true, 3) {
                report.sample(json!({"type": c.v.ty().sig(), "value": c.v.show_short(), "be": true, "offset": 3,
                    "real": refgv::short_hex(&real), "normal_form": refgv::short_hex(&p.want(true, 3))}));
            }
        }
        report.set("threshold_values", json!(n_thr.load(Ordering::Relaxed)));
        report.assume("the harness's reading of the GVariant specification (refgv) is right; it is cross-checked against GLib's g_variant_parse/g_variant_byteswap/g_variant_is_normal_form over the whole value corpus on every run");
        report.assume("leading zero padding from the given start offset to the value's alignment is the embedding convention (the specification only defines serialisations that start aligned)");
        report.assume("handle (h) values are fd-list indices numbered in order of appearance; dict entries are compared in the order the implementation emits them (normal form does not order entries)");
        if capped {
            report.cap("value products above 64 combinations per type are reduced to base-choice coverage");
        }
        report.finish(
            "every type ≤ N nodes (with maybe) × rv::values × {LE,BE} × offsets 0..7, plus threshold-crossing containers; non-trivial = the value's type contains a container (framing, padding or terminator rules apply)",
            true,
        )
    }
}
