//! C08 - dynamic values obey equality, ordering, hashing and conversion laws.
//!
//! Space: the deduplicated universe of `Value`s built from `rv::values` over `rv::all_types(2, maybe)`
//! plus every dict type with a basic key over four value types, two-field structs and a few nested
//! containers (thorough: a fixed-stride subset of the values of all 3-node types as well), with NaN
//! (both signs), +-0.0, infinities, borrowed and owned fds.
//!
//! Laws (only what the property states):
//!   eq-reflexive / eq-symmetric / eq-transitive                   `==` is an equivalence
//!   cmp-antisymmetric / cmp-transitive / cmp-consistent-eq         `Ord::cmp` is a total order, Equal <=> ==
//!   hash-consistent-eq                                             a == b => hash a == hash b
//!   clone-preserves-{eq,signature}, owned-preserves-{eq,signature} try_clone, clone, try_to_owned,
//!                                                                  try_into_owned, OwnedValue -> Value
//!   signature-is-encoded                                           value_signature() is what to_bytes wrote
//!   std-roundtrip                                                  T -> Value -> T is the identity

use std::{
    cmp::Ordering,
    collections::{BTreeMap, HashMap},
    hash::{Hash, Hasher},
    os::fd::AsFd,
};

use serde_json::json;
use vcommon::{hash64, Args, Report, Tier, Violation};
use zvariant::{serialized::Context, to_bytes, ObjectPath, OwnedValue, Signature, Str, Value, LE};

use crate::rv::{self, from_value, rv_eq, to_value, Domain, FdTable, Ty, RV};

// ---------------------------------------------------------------------------------------------
// universe
// ---------------------------------------------------------------------------------------------

fn extra_types() -> Vec<Ty> {
    let b = |t: &Ty| Box::new(t.clone());
    let mut out = vec![];
    let vals = [Ty::Y, Ty::D, Ty::S, Ty::V];
    for k in rv::LEAVES.iter().filter(|l| l.is_basic()) {
        for v in &vals {
            out.push(Ty::Dict(b(k), b(v)));
        }
    }
    let fs = [Ty::Y, Ty::D, Ty::S, Ty::G];
    for x in &fs {
        for y in &fs {
            out.push(Ty::Struct(vec![x.clone(), y.clone()]));
        }
    }
    out.push(Ty::Array(b(&Ty::Array(b(&Ty::D)))));
    out.push(Ty::Array(b(&Ty::Struct(vec![Ty::D]))));
    out.push(Ty::Array(b(&Ty::Struct(vec![Ty::G]))));
    out.push(Ty::Struct(vec![Ty::Array(b(&Ty::D))]));
    out.push(Ty::Struct(vec![Ty::Struct(vec![Ty::D])]));
    out.push(Ty::Dict(b(&Ty::S), b(&Ty::Array(b(&Ty::D)))));
    out.push(Ty::Maybe(b(&Ty::Array(b(&Ty::D)))));
    out.push(Ty::Maybe(b(&Ty::Maybe(b(&Ty::D)))));
    out.push(Ty::Array(b(&Ty::Maybe(b(&Ty::D)))));
    out
}

fn extra_values() -> Vec<RV> {
    let nan = f64::NAN.to_bits();
    let neg_nan = (-f64::NAN).to_bits();
    let ninf = f64::NEG_INFINITY.to_bits();
    vec![
        RV::D(neg_nan),
        RV::D(ninf),
        RV::D((-1.5f64).to_bits()),
        RV::V(Box::new((Ty::D, RV::D(nan)))),
        RV::V(Box::new((Ty::D, RV::D(0.0f64.to_bits())))),
        RV::V(Box::new((Ty::D, RV::D((-0.0f64).to_bits())))),
        RV::Array(Ty::D, vec![RV::D(neg_nan)]),
        RV::Array(Ty::D, vec![RV::D(nan), RV::D(nan)]),
        RV::Struct(vec![RV::D(nan), RV::Y(1)]),
        RV::Struct(vec![RV::D(nan), RV::Y(255)]),
        RV::Struct(vec![RV::Y(1), RV::D(nan)]),
        RV::G("(ii)".into()),
        RV::G("ii".into()),
        RV::G("s".into()),
        RV::G("as".into()),
        RV::G("ai".into()),
        RV::G("a{sv}a{sv}".into()),
    ]
}

struct Item<'a> {
    /// how the value was built
    rv: RV,
    /// what the built value holds, read back through the public accessors (differs from `rv` when
    /// e.g. `Dict::append` merged two keys)
    held: RV,
    sig: String,
    val: Value<'a>,
    /// how the fd inside (if any) is held: "", "borrowed", "owned"
    fd_mode: &'static str,
}

fn contains(rv: &RV, pred: &dyn Fn(&RV) -> bool) -> bool {
    if pred(rv) {
        return true;
    }
    match rv {
        RV::V(b) => contains(&b.1, pred),
        RV::Array(_, xs) | RV::Struct(xs) => xs.iter().any(|x| contains(x, pred)),
        RV::Dict(_, _, xs) => xs.iter().any(|(k, v)| contains(k, pred) || contains(v, pred)),
        RV::Maybe(_, Some(x)) => contains(x, pred),
        _ => false,
    }
}

fn has_nan(rv: &RV) -> bool {
    contains(rv, &|r| matches!(r, RV::D(b) if f64::from_bits(*b).is_nan()))
}
fn has_fd(rv: &RV) -> bool {
    contains(rv, &|r| matches!(r, RV::H(_)))
}
fn has_float(rv: &RV) -> bool {
    contains(rv, &|r| matches!(r, RV::D(_)))
}
fn has_sigval(rv: &RV) -> bool {
    contains(rv, &|r| matches!(r, RV::G(_)))
}

/// The content of a value with every piece of *signature* information removed: signature-typed
/// leaves are blanked and the element/key/value/payload type annotations of containers are dropped.
/// Two different values with the same `erase` differ only in signatures (their own or held ones).
fn erase(rv: &RV) -> String {
    match rv {
        RV::G(_) => "g".into(),
        RV::V(b) => format!("<{}>", erase(&b.1)),
        RV::Array(_, xs) => format!("[{}]", xs.iter().map(erase).collect::<Vec<_>>().join(",")),
        RV::Struct(xs) => format!("({})", xs.iter().map(erase).collect::<Vec<_>>().join(",")),
        RV::Dict(_, _, xs) => format!("{{{}}}", xs.iter().map(|(a, b)| format!("{}:{}", erase(a), erase(b))).collect::<Vec<_>>().join(",")),
        RV::Maybe(_, Some(x)) => format!("just {}", erase(x)),
        RV::Maybe(_, None) => "nothing".into(),
        // +0.0 and -0.0 are == as f64
        RV::D(b) if f64::from_bits(*b) == 0.0 => "0.0d".into(),
        other => other.show(),
    }
}

fn feats(v: Violation, items: &[&Item<'_>]) -> Violation {
    let nan = items.iter().any(|i| has_nan(&i.held));
    let fd = items.iter().any(|i| has_fd(&i.held));
    // features are computed from what the values actually hold (`held`), not from how they were built
    let only_sig = items.len() == 2
        && (!rv_eq(&items[0].held, &items[1].held) || items[0].sig != items[1].sig)
        && erase(&items[0].held) == erase(&items[1].held);
    v.feat("has_nan", nan).feat("has_fd", fd).feat("differ_only_in_signatures", only_sig)
}

/// Identify an fd by the file it refers to.
fn fd_by_inode(fds: &FdTable, raw: i32) -> u32 {
    let ino = {
        let mut st: libc::stat = unsafe { std::mem::zeroed() };
        unsafe { libc::fstat(raw, &mut st) };
        st.st_ino as u64
    };
    fds.fds.iter().position(|f| FdTable::inode(f) == ino).map(|p| p as u32).unwrap_or(u32::MAX)
}

fn std_hash(v: &Value<'_>) -> u64 {
    let mut h = std::collections::hash_map::DefaultHasher::new();
    v.hash(&mut h);
    h.finish()
}

fn universe<'a>(tier: Tier, fds: &'a FdTable, capped: &mut bool, report: &Report) -> Vec<Item<'a>> {
    let maybe = cfg!(feature = "gvariant");
    let dom = Domain::standard(12);
    let mut types = rv::all_types(2, maybe);
    types.extend(extra_types().into_iter().filter(|t| maybe || !t.contains(&|x| matches!(x, Ty::Maybe(_)))));
    let mut rvs: Vec<RV> = vec![];
    for t in &types {
        rvs.extend(rv::values(t, &dom, capped));
    }
    rvs.extend(extra_values());
    if tier == Tier::Thorough {
        // a fixed-stride subset of the values of all 3-node types
        let mut more = vec![];
        for t in rv::all_types(3, maybe).iter().filter(|t| t.nodes() == 3) {
            more.extend(rv::values(t, &Domain::standard(6), capped));
        }
        let want = 2400usize;
        let stride = (more.len() / want).max(1);
        report.set("thorough_three_node_values", json!({"available": more.len(), "stride": stride}));
        rvs.extend(more.into_iter().step_by(stride));
    }
    let mut seen = std::collections::BTreeSet::new();
    let mut out = vec![];
    let mut unbuildable: Vec<String> = vec![];
    for r in rvs {
        let sig = r.ty().sig();
        if !seen.insert(format!("{sig}:{}", r.show())) {
            continue;
        }
        match to_value(&r, fds) {
            Ok(val) => {
                let fd_mode = if has_fd(&r) { "borrowed" } else { "" };
                let held = from_value(&val, &|raw| fd_by_inode(fds, raw)).unwrap_or_else(|e| vcommon::machinery_failure(&format!("C08: cannot read back {}: {e}", r.show())));
                out.push(Item { rv: r, held, sig, val, fd_mode });
            }
            Err(e) => {
                // A well-typed value the public constructors refuse: not a law of this property, but
                // it must not hide the laws on the other values. Leave it out and say so.
                unbuildable.push(format!("{sig}:{} ({e})", r.show()));
            }
        }
    }
    if !unbuildable.is_empty() {
        report.cap(format!(
            "{} well-typed values could not be built through the public constructors and are left out, e.g. {}",
            unbuildable.len(),
            unbuildable[0]
        ));
    }
    // owned fds (dups of the table's files): the same RV as the borrowed ones, held differently
    for i in 0..fds.fds.len() as u32 {
        let dup = fds.fds[i as usize].as_fd().try_clone_to_owned().expect("dup");
        out.push(Item { rv: RV::H(i), held: RV::H(i), sig: "h".into(), val: Value::Fd(zvariant::Fd::from(dup)), fd_mode: "owned" });
    }
    out
}

// ---------------------------------------------------------------------------------------------
// unary laws
// ---------------------------------------------------------------------------------------------

fn encoded_signature(v: &Value<'_>, gvariant: bool) -> Result<String, String> {
    if gvariant {
        #[cfg(feature = "gvariant")]
        {
            let d = to_bytes(Context::new_gvariant(LE, 0), v).map_err(|e| e.to_string())?;
            let b = d.bytes();
            // GVariant variant: value bytes, NUL, signature
            let nul = b.iter().rposition(|c| *c == 0).ok_or("no NUL separator in the variant encoding")?;
            return String::from_utf8(b[nul + 1..].to_vec()).map_err(|e| e.to_string());
        }
        #[allow(unreachable_code)]
        Err("gvariant disabled".into())
    } else {
        let d = to_bytes(Context::new_dbus(LE, 0), v).map_err(|e| e.to_string())?;
        let b = d.bytes();
        // D-Bus variant: u8 length, signature, NUL, padded value
        let n = *b.first().ok_or("empty encoding")? as usize;
        if b.len() < n + 2 || b[n + 1] != 0 {
            return Err("malformed variant header".into());
        }
        String::from_utf8(b[1..1 + n].to_vec()).map_err(|e| e.to_string())
    }
}

fn unary(idx: usize, it: &Item<'_>, fds: &FdTable, out: &mut Vec<Violation>, evals: &mut u64) {
    let replay = json!({"values": [idx], "shown": [show(it)]});
    let fd_index = |raw: i32| -> u32 { fd_by_inode(fds, raw) };
    let mut fail = |clause: &str, op: &str, detail: String| {
        out.push(
            feats(Violation::new(clause, format!("{}:{} [{}] {detail}", it.sig, it.rv.show(), op), replay.clone()), &[it])
                .feat("op", op)
                .feat("fd_held", it.fd_mode),
        );
    };
    let v = &it.val;
    let r = vcommon::catch(|| {
        let mut fails: Vec<(&'static str, &'static str, String)> = vec![];
        let reflexive = v == v;
        if !reflexive {
            fails.push(("eq-reflexive", "==", "v == v is false".into()));
        }
        // harness-level sameness, usable when == is not reflexive
        let same = |c: &Value<'_>| -> bool {
            if reflexive {
                c == v && v == c
            } else {
                from_value(c, &fd_index).map(|rc| rv_eq(&rc, &it.held)).unwrap_or(false)
            }
        };
        let how = if reflexive { "is != the original" } else { "does not hold the original's content (== is unusable here; compared through the harness tree)" };
        let vsig = v.value_signature().to_string();
        let mut copy = |op: &'static str, clause_eq: &'static str, clause_sig: &'static str, c: Result<Value<'_>, String>| match c {
            Ok(c) => {
                if !same(&c) {
                    fails.push((clause_eq, op, format!("the copy {how}")));
                }
                if c.value_signature() != v.value_signature() || c.value_signature().to_string() != vsig {
                    fails.push((clause_sig, op, format!("copy's value_signature {} != {}", c.value_signature(), vsig)));
                }
            }
            Err(e) => fails.push((clause_eq, op, format!("failed: {e}"))),
        };
        copy("try_clone", "clone-preserves-eq", "clone-preserves-signature", v.try_clone().map_err(|e| e.to_string()));
        copy("clone", "clone-preserves-eq", "clone-preserves-signature", Ok(v.clone()));
        copy("Value::try_from(&Value)", "clone-preserves-eq", "clone-preserves-signature", Value::try_from(v).map_err(|e| e.to_string()));
        copy(
            "try_to_owned",
            "owned-preserves-eq",
            "owned-preserves-signature",
            v.try_to_owned().map(Value::from).map_err(|e| e.to_string()),
        );
        copy(
            "try_into_owned",
            "owned-preserves-eq",
            "owned-preserves-signature",
            v.try_clone().and_then(|c| c.try_into_owned()).map(Value::from).map_err(|e| e.to_string()),
        );
        copy(
            "OwnedValue::try_from(&Value)",
            "owned-preserves-eq",
            "owned-preserves-signature",
            OwnedValue::try_from(v).map(Value::from).map_err(|e| e.to_string()),
        );
        copy(
            "OwnedValue::try_clone",
            "owned-preserves-eq",
            "owned-preserves-signature",
            v.try_to_owned().and_then(|o| o.try_clone()).map(Value::from).map_err(|e| e.to_string()),
        );
        // the OwnedValue itself (through Deref) against the original
        match v.try_to_owned() {
            Ok(o) => {
                if reflexive && !(*o == *v) {
                    fails.push(("owned-preserves-eq", "*OwnedValue == Value", "the owned value is != the original".into()));
                }
                if o.value_signature().to_string() != vsig {
                    fails.push(("owned-preserves-signature", "OwnedValue::value_signature", format!("{} != {vsig}", o.value_signature())));
                }
            }
            Err(e) => fails.push(("owned-preserves-eq", "try_to_owned", format!("failed: {e}"))),
        }
        // reported signature = harness type = what the encoders write
        if vsig != it.sig {
            fails.push(("signature-is-encoded", "value_signature", format!("value_signature() = {vsig}, the value was built as {}", it.sig)));
        }
        let maybe_inside = it.rv.ty().contains(&|t| matches!(t, Ty::Maybe(_)));
        if !maybe_inside {
            match encoded_signature(v, false) {
                Ok(s) if s == vsig => {}
                Ok(s) => fails.push(("signature-is-encoded", "to_bytes(dbus)", format!("encoded with signature {s:?}, value_signature() = {vsig:?}"))),
                Err(e) => fails.push(("signature-is-encoded", "to_bytes(dbus)", format!("encoding failed: {e}"))),
            }
        }
        if cfg!(feature = "gvariant") {
            match encoded_signature(v, true) {
                Ok(s) if s == vsig => {}
                Ok(s) => fails.push(("signature-is-encoded", "to_bytes(gvariant)", format!("encoded with signature {s:?}, value_signature() = {vsig:?}"))),
                Err(e) => fails.push(("signature-is-encoded", "to_bytes(gvariant)", format!("encoding failed: {e}"))),
            }
        }
        fails
    });
    *evals += 12;
    match r {
        Ok(fails) => {
            for (c, op, d) in fails {
                fail(c, op, d);
            }
        }
        Err(m) => fail("no-panic", "unary laws", format!("panicked: {m} at {}", vcommon::last_panic_location())),
    }
}

// ---------------------------------------------------------------------------------------------
// std-type conversion bank
// ---------------------------------------------------------------------------------------------

struct BankFail {
    ty: String,
    route: &'static str,
    shown: String,
    detail: String,
}

trait Same {
    fn same(&self, other: &Self) -> bool;
}
macro_rules! same_eq { ($($t:ty),*) => { $(impl Same for $t { fn same(&self, o: &Self) -> bool { self == o } })* } }
same_eq!(u8, bool, i16, u16, i32, u32, i64, u64, String, Signature);
impl Same for f64 {
    fn same(&self, o: &Self) -> bool {
        self.to_bits() == o.to_bits()
    }
}
impl<T: Same> Same for Vec<T> {
    fn same(&self, o: &Self) -> bool {
        self.len() == o.len() && self.iter().zip(o).all(|(a, b)| a.same(b))
    }
}
impl<T: Same> Same for Option<T> {
    fn same(&self, o: &Self) -> bool {
        match (self, o) {
            (None, None) => true,
            (Some(a), Some(b)) => a.same(b),
            _ => false,
        }
    }
}
impl<K: Eq + Hash, V: Same> Same for HashMap<K, V> {
    fn same(&self, o: &Self) -> bool {
        self.len() == o.len() && self.iter().all(|(k, v)| o.get(k).map(|w| v.same(w)).unwrap_or(false))
    }
}
impl<A: Same> Same for (A,) {
    fn same(&self, o: &Self) -> bool {
        self.0.same(&o.0)
    }
}
impl<A: Same, B: Same> Same for (A, B) {
    fn same(&self, o: &Self) -> bool {
        self.0.same(&o.0) && self.1.same(&o.1)
    }
}
impl<A: Same, B: Same, C: Same> Same for (A, B, C) {
    fn same(&self, o: &Self) -> bool {
        self.0.same(&o.0) && self.1.same(&o.1) && self.2.same(&o.2)
    }
}

fn u8s() -> Vec<u8> {
    vec![0, 1, 255]
}
fn f64s() -> Vec<f64> {
    vec![0.0, -0.0, 1.5, f64::NAN, f64::INFINITY]
}
fn strings() -> Vec<String> {
    vec!["".into(), "a".into(), "é/€".into()]
}
fn lists<T: Clone>(xs: &[T]) -> Vec<Vec<T>> {
    let mut out = vec![vec![]];
    for x in xs {
        out.push(vec![x.clone()]);
    }
    for (i, x) in xs.iter().enumerate() {
        out.push(vec![x.clone(), xs[(i + 1) % xs.len()].clone()]);
    }
    out
}
fn maps<K: Clone + Eq + Hash, V: Clone>(ks: &[K], vs: &[V]) -> Vec<HashMap<K, V>> {
    let mut out = vec![HashMap::new()];
    for (i, k) in ks.iter().enumerate() {
        out.push(HashMap::from([(k.clone(), vs[i % vs.len()].clone())]));
    }
    out.push(ks.iter().enumerate().map(|(i, k)| (k.clone(), vs[i % vs.len()].clone())).collect());
    out
}

/// T -> Value -> T through `Value::from` + `T::try_from(Value)`, `Value::new` + `downcast`, and
/// through an `OwnedValue`.
macro_rules! bank_owned {
    ($fails:ident, $evals:ident, $t:ty, $vals:expr) => {{
        let vals: Vec<$t> = $vals;
        for x in vals {
            let shown = format!("{:?}", x);
            let tn = stringify!($t);
            let mut chk = |route: &'static str, r: Result<Result<$t, String>, String>| {
                *$evals += 1;
                match r {
                    Ok(Ok(y)) if y.same(&x) => {}
                    Ok(Ok(y)) => $fails.push(BankFail { ty: tn.into(), route, shown: shown.clone(), detail: format!("came back as {:?}", y) }),
                    Ok(Err(e)) => $fails.push(BankFail { ty: tn.into(), route, shown: shown.clone(), detail: format!("conversion back failed: {e}") }),
                    Err(m) => $fails.push(BankFail { ty: tn.into(), route, shown: shown.clone(), detail: format!("panicked: {m}") }),
                }
            };
            chk("From + TryFrom<Value>", vcommon::catch(|| <$t>::try_from(Value::from(x.clone())).map_err(|e| e.to_string())));
            chk("Value::new + downcast", vcommon::catch(|| Value::new(x.clone()).downcast::<$t>().map_err(|e| e.to_string())));
            chk(
                "via OwnedValue",
                vcommon::catch(|| {
                    let o = OwnedValue::try_from(Value::from(x.clone())).map_err(|e| e.to_string())?;
                    <$t>::try_from(o).map_err(|e| e.to_string())
                }),
            );
        }
    }};
}

/// Option<T> -> Value::Maybe -> Option<T> (the way back is `Maybe::get`).
#[cfg(all(feature = "gvariant", not(feature = "option-as-array")))]
macro_rules! bank_option {
    ($fails:ident, $evals:ident, $t:ty, $vals:expr) => {{
        let mut vals: Vec<Option<$t>> = vec![None];
        vals.extend($vals.into_iter().map(Some));
        for x in vals {
            *$evals += 1;
            let shown = format!("{:?}", x);
            let r = vcommon::catch(|| -> Result<Option<$t>, String> {
                let v = Value::from(x.clone());
                match &v {
                    Value::Maybe(m) => m.get::<$t>().map_err(|e| e.to_string()),
                    other => Err(format!("Value::from(Option) is not a Maybe: {other:?}")),
                }
            });
            let tn = concat!("Option<", stringify!($t), ">");
            match r {
                Ok(Ok(y)) if y.same(&x) => {}
                Ok(Ok(y)) => $fails.push(BankFail { ty: tn.into(), route: "From + Maybe::get", shown, detail: format!("came back as {:?}", y) }),
                Ok(Err(e)) => $fails.push(BankFail { ty: tn.into(), route: "From + Maybe::get", shown, detail: format!("conversion back failed: {e}") }),
                Err(m) => $fails.push(BankFail { ty: tn.into(), route: "From + Maybe::get", shown, detail: format!("panicked: {m}") }),
            }
        }
    }};
}

fn bank(fails: &mut Vec<BankFail>, evals: &mut u64) -> usize {
    let mut n_types = 0;
    macro_rules! b { ($t:ty, $v:expr) => {{ n_types += 1; bank_owned!(fails, evals, $t, $v); }} }
    b!(u8, u8s());
    b!(bool, vec![false, true]);
    b!(i16, vec![0, 1, -1, i16::MIN, i16::MAX]);
    b!(u16, vec![0, 1, u16::MAX]);
    b!(i32, vec![0, 1, -1, i32::MIN, i32::MAX]);
    b!(u32, vec![0, 1, u32::MAX]);
    b!(i64, vec![0, 1, -1, i64::MIN, i64::MAX]);
    b!(u64, vec![0, 1, u64::MAX]);
    b!(f64, f64s());
    b!(String, strings());
    b!(Vec<u8>, lists(&u8s()));
    b!(Vec<bool>, lists(&[false, true]));
    b!(Vec<i32>, lists(&[0, -1, i32::MAX]));
    b!(Vec<u64>, lists(&[0, u64::MAX]));
    b!(Vec<f64>, lists(&f64s()));
    b!(Vec<String>, lists(&strings()));
    b!(Vec<Vec<u8>>, lists(&lists(&[0u8, 255])));
    b!(Vec<Vec<String>>, lists(&lists(&strings()[..2])));
    b!(HashMap<String, u32>, maps(&strings(), &[0u32, u32::MAX]));
    b!(HashMap<u8, String>, maps(&u8s(), &strings()));
    b!(HashMap<i64, f64>, maps(&[0i64, -1, i64::MAX], &f64s()));
    b!(HashMap<String, Vec<u8>>, maps(&strings(), &lists(&[1u8, 2])));
    b!(HashMap<u32, HashMap<String, u8>>, maps(&[0u32, 7], &maps(&strings(), &u8s())));
    b!(HashMap<bool, i16>, maps(&[false, true], &[0i16, i16::MIN]));
    b!(
        HashMap<Signature, u8>,
        maps(&["i", "s", "a{sv}"].map(|g| Signature::try_from(g).unwrap()), &u8s())
    );
    b!((u8,), u8s().into_iter().map(|x| (x,)).collect());
    b!((u8, String), u8s().into_iter().zip(strings()).collect());
    b!((i32, f64, bool), f64s().into_iter().enumerate().map(|(i, f)| (i as i32 - 2, f, i % 2 == 0)).collect());
    b!(((u8, u8), String), strings().into_iter().map(|s| ((1u8, 255u8), s)).collect());
    b!((Vec<u8>, HashMap<String, u32>), lists(&u8s()).into_iter().zip(maps(&strings(), &[1u32, 2]).into_iter().cycle()).collect());
    b!((String, Vec<(u8, String)>), vec![("k".to_string(), vec![]), ("".to_string(), vec![(1u8, "a".to_string()), (2u8, "é/€".to_string())])]);
    #[cfg(all(feature = "gvariant", not(feature = "option-as-array")))]
    {
        macro_rules! o { ($t:ty, $v:expr) => {{ n_types += 1; bank_option!(fails, evals, $t, $v); }} }
        o!(u8, u8s());
        o!(i64, vec![0i64, -1, i64::MAX]);
        o!(f64, f64s());
        o!(String, strings());
        o!(bool, vec![false, true]);
    }
    // borrowed / wrapper string-like types: the value comes back holding the same text
    for s in strings() {
        *evals += 3;
        let r = vcommon::catch(|| {
            let a = Str::try_from(Value::from(Str::from(s.as_str()))).map(|x| x.as_str() == s).unwrap_or(false);
            let v = Value::from(s.as_str());
            let b = <&str>::try_from(&v).map(|x| x == s).unwrap_or(false);
            let c = String::try_from(&v).map(|x| x == s).unwrap_or(false);
            (a, b, c)
        });
        if r != Ok((true, true, true)) {
            fails.push(BankFail { ty: "Str/&str/String by reference".into(), route: "TryFrom<&Value>", shown: format!("{s:?}"), detail: format!("{r:?}") });
        }
    }
    for p in ["/", "/a", "/a/b"] {
        *evals += 1;
        let r = vcommon::catch(|| {
            let op = ObjectPath::try_from(p).map_err(|e| e.to_string())?;
            ObjectPath::try_from(Value::from(op)).map(|x| x.as_str() == p).map_err(|e| e.to_string())
        });
        if r != Ok(Ok(true)) {
            fails.push(BankFail { ty: "ObjectPath".into(), route: "From + TryFrom<Value>", shown: p.into(), detail: format!("{r:?}") });
        }
    }
    for g in ["", "i", "a{sv}", "(ii)", "ii"] {
        *evals += 1;
        let r = vcommon::catch(|| {
            let sg = Signature::try_from(g).map_err(|e| e.to_string())?;
            let back = Signature::try_from(Value::from(sg.clone())).map_err(|e| e.to_string())?;
            Ok::<bool, String>(back == sg && back.to_string() == sg.to_string())
        });
        if r != Ok(Ok(true)) {
            fails.push(BankFail { ty: "Signature".into(), route: "From + TryFrom<Value>", shown: g.into(), detail: format!("{r:?}") });
        }
    }
    n_types + 3
}

// ---------------------------------------------------------------------------------------------
// main
// ---------------------------------------------------------------------------------------------

fn ord_i8(o: Ordering) -> i8 {
    match o {
        Ordering::Less => -1,
        Ordering::Equal => 0,
        Ordering::Greater => 1,
    }
}

fn show(it: &Item<'_>) -> String {
    let held = if it.fd_mode.is_empty() { String::new() } else { format!(" ({} fd)", it.fd_mode) };
    if rv_eq(&it.rv, &it.held) {
        format!("{}:{}{held}", it.sig, it.rv.show())
    } else {
        format!("{}:{} (built from {}){held}", it.sig, it.held.show(), it.rv.show())
    }
}

pub fn main(args: &Args) -> i32 {
    if let Some(p) = &args.replay {
        return replay(p, args);
    }
    let report = Report::new("C08", args.tier, args.seed, "exploration");
    run(args.tier, &report, None);
    report.assume("Values are built from the harness tree through public constructors only (rv::to_value)");
    report.assume("hash equality is observed with std's DefaultHasher (fixed keys)");
    report.assume("when `==` is not reflexive for a value, copies are compared through the harness tree (floats bitwise, fds by inode) instead of `==`");
    report.assume("only Ord::cmp is treated as 'the ordering'; partial_cmp/< on NaN is not part of the stated laws");
    report.finish(
        "all values of rv::all_types(2) + every basic-key dict over {y,d,s,v} + two-field structs over {y,d,s,g} + nested float containers (+ a fixed-stride subset of 3-node types in thorough); every ordered pair for ==/cmp/hash laws, every triple (over all values if N <= 1000, else over the 1000 values richest in floats/signatures/fds) for transitivity; non-trivial = distinct values plus distinct bank conversions",
        true,
    )
}

/// Runs everything; with `only = Some(indices)` prints the observations for those values (replay).
fn run(tier: Tier, report: &Report, only: Option<&[String]>) -> bool {
    let fds = FdTable::new(2);
    let mut capped = false;
    let items = universe(tier, &fds, &mut capped, report);
    let n = items.len();
    if let Some(shown) = only {
        // values are identified by their printed form, which is stable across tiers
        let mut ix = vec![];
        for s in shown {
            match items.iter().position(|it| show(it) == *s) {
                Some(i) => ix.push(i),
                None => println!("  value {s} is not in the universe any more"),
            }
        }
        return replay_values(&items, &ix, &fds);
    }
    report.set("values", json!(n));
    report.set("values_with_nan", json!(items.iter().filter(|i| has_nan(&i.rv)).count()));
    report.set("values_with_float", json!(items.iter().filter(|i| has_float(&i.rv)).count()));
    report.set("distinct_signatures", json!(items.iter().map(|i| i.sig.clone()).collect::<std::collections::BTreeSet<_>>().len()));
    if capped {
        report.note("value lists of some container types were reduced to base-choice coverage by rv::values (cap 12 per type)");
    }
    for (i, it) in items.iter().enumerate() {
        report.nontrivial(hash64(&(i, show(it))));
        if [3usize, n / 5, n / 3, n / 2, 2 * n / 3, n - 1].contains(&i) {
            report.sample(json!({"value": show(it), "value_signature": it.val.value_signature().to_string()}));
        }
    }

    // ---- unary laws (sequential: cheap, and keeps the witness order stable)
    let mut viol: Vec<Violation> = vec![];
    let mut evals = 0u64;
    for (i, it) in items.iter().enumerate() {
        unary(i, it, &fds, &mut viol, &mut evals);
    }
    report.eval(evals);
    report.outcome_n("unary-law-evaluations", evals);

    // ---- pair matrices from the real ==, cmp, hash
    let hashes: Vec<u64> = items.iter().map(|i| std_hash(&i.val)).collect();
    let rows: Vec<std::sync::Mutex<(Vec<bool>, Vec<i8>, Option<String>)>> =
        (0..n).map(|_| std::sync::Mutex::new((vec![], vec![], None))).collect();
    vcommon::par_for(n, 1, |i| {
        let a = &items[i].val;
        let r = vcommon::catch(|| {
            let mut e = Vec::with_capacity(n);
            let mut c = Vec::with_capacity(n);
            for it in items.iter() {
                e.push(*a == it.val);
                c.push(ord_i8(a.cmp(&it.val)));
            }
            (e, c)
        });
        let mut g = rows[i].lock().unwrap();
        match r {
            Ok((e, c)) => {
                g.0 = e;
                g.1 = c;
            }
            Err(m) => {
                g.0 = vec![false; n];
                g.1 = vec![0; n];
                g.2 = Some(format!("{m} at {}", vcommon::last_panic_location()));
            }
        }
    });
    let rows: Vec<(Vec<bool>, Vec<i8>, Option<String>)> = rows.into_iter().map(|m| m.into_inner().unwrap()).collect();
    let eq = |i: usize, j: usize| rows[i].0[j];
    let cmp = |i: usize, j: usize| rows[i].1[j];
    report.eval((n * n) as u64 * 4);

    let pair_replay = |i: usize, j: usize| json!({"values": [i, j], "shown": [show(&items[i]), show(&items[j])]});
    let mut counts: BTreeMap<&'static str, u64> = BTreeMap::new();
    for i in 0..n {
        if let Some(m) = &rows[i].2 {
            viol.push(feats(Violation::new("no-panic", format!("==/cmp with {} as left operand panicked: {m}", show(&items[i])), json!({"values": [i], "shown": [show(&items[i])]})), &[&items[i]]));
            continue;
        }
        for j in 0..n {
            let (a, b) = (&items[i], &items[j]);
            if eq(i, j) {
                *counts.entry("pairs-equal").or_insert(0) += 1;
            } else {
                *counts.entry("pairs-unequal").or_insert(0) += 1;
            }
            if i < j && eq(i, j) != eq(j, i) {
                viol.push(feats(
                    Violation::new("eq-symmetric", format!("{} == {} is {} but the reverse is {}", show(a), show(b), eq(i, j), eq(j, i)), pair_replay(i, j)),
                    &[a, b],
                ));
            }
            if i < j && cmp(i, j) != -cmp(j, i) {
                viol.push(feats(
                    Violation::new("cmp-antisymmetric", format!("cmp({}, {}) = {} but cmp reversed = {}", show(a), show(b), cmp(i, j), cmp(j, i)), pair_replay(i, j)),
                    &[a, b],
                ));
            }
            if i <= j && (cmp(i, j) == 0) != eq(i, j) {
                viol.push(
                    feats(
                        Violation::new(
                            "cmp-consistent-eq",
                            format!("cmp({}, {}) = {} while == is {}", show(a), show(b), ["Less", "Equal", "Greater"][(cmp(i, j) + 1) as usize], eq(i, j)),
                            pair_replay(i, j),
                        ),
                        &[a, b],
                    )
                    .feat("cmp_says_equal", cmp(i, j) == 0),
                );
            }
            if i <= j && eq(i, j) && hashes[i] != hashes[j] {
                viol.push(feats(
                    Violation::new("hash-consistent-eq", format!("{} == {} but their hashes differ", show(a), show(b)), pair_replay(i, j)),
                    &[a, b],
                ));
            }
        }
    }
    for (k, c) in &counts {
        report.outcome_n(k, *c);
    }

    // ---- transitivity over the matrices
    let tri: Vec<usize> = if n <= 1000 {
        (0..n).collect()
    } else {
        let mut pri: Vec<usize> = (0..n).collect();
        pri.sort_by_key(|i| {
            let r = &items[*i].rv;
            (!(has_nan(r)), !(has_float(r) || has_sigval(r) || has_fd(r)), *i % 7, *i)
        });
        pri.truncate(1000);
        pri.sort();
        report.cap(format!("transitivity is checked on 1000 of the {n} values (all values with floats, signature values or fds first, the rest by fixed stride); pair laws cover all values"));
        pri
    };
    let tn = tri.len();
    let tri_viol: Vec<std::sync::Mutex<Vec<(usize, usize, usize, &'static str)>>> = (0..tn).map(|_| std::sync::Mutex::new(vec![])).collect();
    vcommon::par_for(tn, 1, |x| {
        let i = tri[x];
        let mut local = vec![];
        let (mut seen_eq, mut seen_le) = (false, false);
        for &j in &tri {
            let (eij, lij) = (eq(i, j), cmp(i, j) <= 0);
            if !eij && !lij {
                continue;
            }
            for &k in &tri {
                if eij && eq(j, k) && !eq(i, k) && !seen_eq {
                    local.push((i, j, k, "eq-transitive"));
                    seen_eq = true;
                }
                if lij && cmp(j, k) <= 0 && cmp(i, k) > 0 && !seen_le {
                    local.push((i, j, k, "cmp-transitive"));
                    seen_le = true;
                }
            }
        }
        *tri_viol[x].lock().unwrap() = local;
    });
    report.eval((tn * tn * tn) as u64 * 2);
    report.outcome_n("triples", (tn * tn * tn) as u64);
    for m in tri_viol {
        for (i, j, k, clause) in m.into_inner().unwrap() {
            let (a, b, c) = (&items[i], &items[j], &items[k]);
            let d = if clause == "eq-transitive" {
                format!("{} == {} and {} == {} but {} != {}", show(a), show(b), show(b), show(c), show(a), show(c))
            } else {
                format!("{} <= {} and {} <= {} but cmp({}, {}) = Greater", show(a), show(b), show(b), show(c), show(a), show(c))
            };
            viol.push(feats(Violation::new(clause, d, json!({"values": [i, j, k], "shown": [show(a), show(b), show(c)]})), &[a, b, c]));
        }
    }

    // ---- std-type bank
    let mut bf = vec![];
    let mut be = 0u64;
    let n_types = bank(&mut bf, &mut be);
    report.eval(be);
    report.outcome_n("bank-conversions", be);
    report.set("bank_types", json!(n_types));
    for k in 0..be {
        report.nontrivial(hash64(&("bank", k)));
    }
    for f in bf {
        viol.push(
            Violation::new("std-roundtrip", format!("{} {} [{}]: {}", f.ty, f.shown, f.route, f.detail), json!({"bank": f.ty, "value": f.shown}))
                .feat("type", f.ty)
                .feat("route", f.route),
        );
    }

    let any = !viol.is_empty();
    if std::env::var_os("C08_IDENTITIES").is_some() {
        let mut ids: BTreeMap<String, (u64, String)> = BTreeMap::new();
        for v in &viol {
            let e = ids.entry(format!("{} {:?}", v.clause, v.features)).or_insert((0, v.detail.clone()));
            e.0 += 1;
        }
        for (k, (n, d)) in ids {
            eprintln!("{n:6} {k}\n         e.g. {d}");
        }
    }
    for v in viol {
        report.violation(v);
    }
    any
}

fn replay_values(items: &[Item<'_>], ix: &[usize], fds: &FdTable) -> bool {
    let mut bad = false;
    for &i in ix {
        let Some(it) = items.get(i) else {
            println!("  value #{i}: not in this tier's universe (replay with the tier the artefact came from)");
            continue;
        };
        println!("  value #{i}: {}   value_signature = {}", show(it), it.val.value_signature());
        let mut v = vec![];
        let mut e = 0;
        unary(i, it, fds, &mut v, &mut e);
        for x in &v {
            println!("    law failed: {} - {}", x.clause, x.detail);
        }
        bad |= !v.is_empty();
    }
    for &i in ix {
        for &j in ix {
            if let (Some(a), Some(b)) = (items.get(i), items.get(j)) {
                let r = vcommon::catch(|| (a.val == b.val, a.val.cmp(&b.val), std_hash(&a.val) == std_hash(&b.val)));
                println!("  #{i} vs #{j}: {}", match &r {
                    Ok((e, c, h)) => format!("== {e}, cmp {c:?}, same hash {h}"),
                    Err(m) => format!("panicked: {m}"),
                });
                if let Ok((e, c, h)) = r {
                    bad |= (c == Ordering::Equal) != e || (e && !h);
                } else {
                    bad = true;
                }
            }
        }
    }
    if ix.len() == 3 {
        if let (Some(a), Some(b), Some(c)) = (items.get(ix[0]), items.get(ix[1]), items.get(ix[2])) {
            let le = |x: &Item<'_>, y: &Item<'_>| x.val.cmp(&y.val) != Ordering::Greater;
            if le(a, b) && le(b, c) && !le(a, c) {
                println!("  a <= b, b <= c but a > c");
                bad = true;
            }
            if a.val == b.val && b.val == c.val && a.val != c.val {
                println!("  a == b, b == c but a != c");
                bad = true;
            }
        }
    }
    bad
}

fn replay(path: &str, args: &Args) -> i32 {
    let v = vcommon::load_replay(path);
    println!("C08 replay: clause {} - {}", v["clause"].as_str().unwrap_or("?"), v["detail"].as_str().unwrap_or(""));
    let bad = if let Some(sh) = v["replay"]["shown"].as_array() {
        let shown: Vec<String> = sh.iter().filter_map(|x| x.as_str().map(|x| x.to_string())).collect();
        let report = Report::new("C08", args.tier, args.seed, "exploration");
        // the thorough universe is a superset of the quick one
        run(Tier::Thorough, &report, Some(&shown))
    } else if v["replay"]["bank"].is_string() {
        let mut f = vec![];
        let mut e = 0;
        bank(&mut f, &mut e);
        let ty = v["replay"]["bank"].as_str().unwrap_or("");
        let mine: Vec<&BankFail> = f.iter().filter(|x| x.ty == ty).collect();
        for x in &mine {
            println!("  {} {} [{}]: {}", x.ty, x.shown, x.route, x.detail);
        }
        !mine.is_empty()
    } else {
        vcommon::machinery_failure("C08 replay: artefact needs replay.shown or replay.bank");
    };
    if bad {
        println!("C08 replay: reproduced");
        1
    } else {
        println!("C08 replay: not reproduced");
        0
    }
}
