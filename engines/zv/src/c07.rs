//! C07 — container nesting limits are enforced exactly.
//!
//! Space: every triple (arrays, structures, variants) ∈ 0‥B³ (B = 36 quick, 40 thorough) × nesting
//! orders (quick: the three block orders ASV, VSA, SVA and round-robin ASV; thorough: all six block
//! permutations and both round-robins) × {D-Bus, GVariant} × {encode the `Value`, decode a
//! reference-built encoding}; the value is the chain of one-element containers in that order
//! around a `y`. A second pass uses one-entry dicts (`a{y…}`) as the array kind.
//!
//! Oracle (the statement, literally): success ⇔ arrays ≤ 32 ∧ structures ≤ 32 ∧
//! arrays + structures + variants ≤ 64, and every failure is `Error::MaxDepthExceeded`.
//! For the dict pass the statement does not say whether a dict entry is a "structure"; a case is
//! judged only when both readings agree (dict = array only / dict = array + structure).

use serde_json::json;
use std::collections::BTreeSet;
use vcommon::{hash64, Args, Report, Violation};

use crate::c05::{ctx, err_class, real_encode, Fmt};
use crate::refdbus;
use crate::rv::{self, FdTable, Ty, RV};

#[derive(Clone, Copy, PartialEq, Eq, Hash, Debug, PartialOrd, Ord)]
enum K {
    A,
    S,
    V,
}

fn seq_string(seq: &[K]) -> String {
    seq.iter()
        .map(|k| match k {
            K::A => 'A',
            K::S => 'S',
            K::V => 'V',
        })
        .collect()
}

fn seq_parse(s: &str) -> Option<Vec<K>> {
    s.chars()
        .map(|c| match c {
            'A' => Some(K::A),
            'S' => Some(K::S),
            'V' => Some(K::V),
            _ => None,
        })
        .collect()
}

/// Run-length form for messages: A32 S32 V1.
fn seq_rle(seq: &[K]) -> String {
    let mut out = String::new();
    let mut i = 0;
    while i < seq.len() {
        let mut j = i;
        while j < seq.len() && seq[j] == seq[i] {
            j += 1;
        }
        if !out.is_empty() {
            out.push(' ');
        }
        out.push_str(&format!("{}{}", seq_string(&seq[i..i + 1]), j - i));
        i = j;
    }
    if out.is_empty() {
        out.push_str("(bare y)");
    }
    out
}

fn block(order: [K; 3], a: usize, s: usize, v: usize) -> Vec<K> {
    let n = |k: K| match k {
        K::A => a,
        K::S => s,
        K::V => v,
    };
    let mut out = vec![];
    for k in order {
        out.extend(std::iter::repeat(k).take(n(k)));
    }
    out
}

fn round_robin(order: [K; 3], a: usize, s: usize, v: usize) -> Vec<K> {
    let mut left = [a, s, v];
    let idx = |k: K| match k {
        K::A => 0,
        K::S => 1,
        K::V => 2,
    };
    let mut out = vec![];
    while left.iter().any(|n| *n > 0) {
        for k in order {
            if left[idx(k)] > 0 {
                left[idx(k)] -= 1;
                out.push(k);
            }
        }
    }
    out
}

/// (name, sequence outermost → innermost)
fn orders(thorough: bool, a: usize, s: usize, v: usize) -> Vec<(&'static str, Vec<K>)> {
    use K::*;
    let mut out = vec![
        ("block-ASV", block([A, S, V], a, s, v)),
        ("block-VSA", block([V, S, A], a, s, v)),
        ("block-SVA", block([S, V, A], a, s, v)),
        ("rr-ASV", round_robin([A, S, V], a, s, v)),
    ];
    if thorough {
        out.push(("block-AVS", block([A, V, S], a, s, v)));
        out.push(("block-SAV", block([S, A, V], a, s, v)));
        out.push(("block-VAS", block([V, A, S], a, s, v)));
        out.push(("rr-VSA", round_robin([V, S, A], a, s, v)));
    }
    out
}

/// The chain of one-element containers `seq` (outermost first) around the byte 7.
fn build(seq: &[K], dict: bool) -> RV {
    let mut v = RV::Y(7);
    let mut t = Ty::Y;
    for k in seq.iter().rev() {
        match k {
            K::A => {
                if dict {
                    v = RV::Dict(Ty::Y, t.clone(), vec![(RV::Y(1), v)]);
                    t = Ty::Dict(Box::new(Ty::Y), Box::new(t));
                } else {
                    v = RV::Array(t.clone(), vec![v]);
                    t = Ty::Array(Box::new(t));
                }
            }
            K::S => {
                v = RV::Struct(vec![v]);
                t = Ty::Struct(vec![t]);
            }
            K::V => {
                v = RV::V(Box::new((t.clone(), v)));
                t = Ty::V;
            }
        }
    }
    v
}

#[derive(Clone, Copy, PartialEq, Eq, Debug)]
enum Expect {
    Ok,
    DepthError,
    /// the statement does not decide (dict entries)
    Unjudged,
}

fn expect(seq: &[K], dict: bool) -> Expect {
    let a = seq.iter().filter(|k| **k == K::A).count();
    let s = seq.iter().filter(|k| **k == K::S).count();
    let v = seq.iter().filter(|k| **k == K::V).count();
    let ok = |a: usize, s: usize, total: usize| a <= 32 && s <= 32 && total <= 64;
    if !dict {
        return if ok(a, s, a + s + v) {
            Expect::Ok
        } else {
            Expect::DepthError
        };
    }
    let plain = ok(a, s, a + s + v); // a dict is one array
    let strict = ok(a, s + a, a + s + v + a); // a dict is an array of structures
    match (plain, strict) {
        (true, true) => Expect::Ok,
        (false, false) => Expect::DepthError,
        _ => Expect::Unjudged,
    }
}

#[derive(Debug, Clone, PartialEq)]
enum Obs {
    Ok,
    Depth(String),
    OtherError(String),
    Panic(String),
    /// decode succeeded but the value is not the one that was encoded
    WrongValue(String),
    /// this build cannot run the case
    Skipped,
}

impl Obs {
    fn class(&self) -> String {
        match self {
            Obs::Ok => "ok".into(),
            Obs::Depth(w) => format!("depth-error:{w}"),
            Obs::OtherError(e) => format!("other-error:{}", e.split(':').next().unwrap_or("")),
            Obs::Panic(_) => "panic".into(),
            Obs::WrongValue(_) => "wrong-value".into(),
            Obs::Skipped => "skipped".into(),
        }
    }
}

fn classify<T>(r: Result<zvariant::Result<T>, String>) -> (Obs, Option<T>) {
    match r {
        Err(p) => (Obs::Panic(format!("{p} at {}", vcommon::last_panic_location())), None),
        Ok(Err(zvariant::Error::MaxDepthExceeded(w))) => (Obs::Depth(format!("{w:?}")), None),
        Ok(Err(e)) => (Obs::OtherError(format!("{}: {e}", err_class(&e))), None),
        Ok(Ok(t)) => (Obs::Ok, Some(t)),
    }
}

fn do_encode(v: &RV, fmt: Fmt, fds: &FdTable) -> Obs {
    let Some(c) = ctx(fmt, false, 0) else { return Obs::Skipped };
    let zv = match rv::to_value(v, fds) {
        Ok(z) => z,
        Err(e) => vcommon::machinery_failure(&format!("C07: cannot build the value: {e}")),
    };
    classify(vcommon::catch(|| real_encode(&zv, c))).0
}

fn reference_bytes(v: &RV, fmt: Fmt) -> Vec<u8> {
    match fmt {
        Fmt::DBus => refdbus::encode(v, false, 0).buf,
        Fmt::GV => crate::refgv::normal_form(v, false),
    }
}

/// Decode reference bytes of `v` with the real decoder, dynamically typed. Values whose
/// outermost container is a dict have no dynamic top-level decoder; the caller wraps them.
fn do_decode(v: &RV, fmt: Fmt) -> Obs {
    let Some(c) = ctx(fmt, false, 0) else { return Obs::Skipped };
    let bytes = reference_bytes(v, fmt);
    let data = zvariant::serialized::Data::new(bytes, c);
    let sig = rv::zsig(&v.ty());
    let no_fd = |_: i32| 0u32;
    let (obs, back) = match v {
        RV::Array(..) => {
            let (o, x) = classify(vcommon::catch(|| {
                data.deserialize_for_dynamic_signature::<_, zvariant::Array<'_>>(&sig)
            }));
            (o, x.map(|(a, n)| (rv::from_value(&zvariant::Value::Array(a), &no_fd), n)))
        }
        RV::Struct(..) => {
            let (o, x) = classify(vcommon::catch(|| {
                data.deserialize_for_dynamic_signature::<_, zvariant::Structure<'_>>(&sig)
            }));
            (o, x.map(|(a, n)| (rv::from_value(&zvariant::Value::Structure(a), &no_fd), n)))
        }
        RV::V(..) => {
            let (o, x) = classify(vcommon::catch(|| data.deserialize::<zvariant::Value<'_>>()));
            (
                o,
                x.map(|(a, n)| (rv::from_value(&zvariant::Value::Value(Box::new(a)), &no_fd), n)),
            )
        }
        RV::Y(_) => {
            let (o, x) = classify(vcommon::catch(|| data.deserialize::<u8>()));
            (o, x.map(|(a, n)| (Ok(RV::Y(a)), n)))
        }
        _ => vcommon::machinery_failure("C07: unexpected outermost kind"),
    };
    if let (Obs::Ok, Some((back, _n))) = (&obs, back) {
        match back {
            Ok(b) if rv::rv_eq(&b, v) => {}
            Ok(b) => return Obs::WrongValue(format!("decoded a different value of type {}", b.ty().sig())),
            Err(e) => return Obs::WrongValue(format!("cannot read the decoded value back: {e}")),
        }
    }
    obs
}

#[derive(Clone, Copy, PartialEq, Eq, Debug)]
enum Op {
    Encode,
    Decode,
}

fn run(seq: &[K], dict: bool, fmt: Fmt, op: Op, fds: &FdTable) -> (Vec<K>, Obs) {
    // a dict cannot be the outermost container of a dynamic decode: wrap it in one variant and
    // judge the wrapped value
    let mut seq = seq.to_vec();
    if op == Op::Decode && dict && seq.first() == Some(&K::A) {
        seq.insert(0, K::V);
    }
    let v = build(&seq, dict);
    let obs = match op {
        Op::Encode => do_encode(&v, fmt, fds),
        Op::Decode => do_decode(&v, fmt),
    };
    (seq, obs)
}

fn limit_feature(seq: &[K]) -> &'static str {
    let a = seq.iter().filter(|k| **k == K::A).count();
    let s = seq.iter().filter(|k| **k == K::S).count();
    if a > 32 {
        "arrays>32"
    } else if s > 32 {
        "structures>32"
    } else if seq.len() > 64 {
        "total>64"
    } else {
        "within-limits"
    }
}

/// Judge one observation; returns the outcome class.
fn judge(report: &Report, order: &str, seq: &[K], dict: bool, fmt: Fmt, op: Op, obs: &Obs) -> String {
    let exp = expect(seq, dict);
    let opn = if op == Op::Encode { "encode" } else { "decode" };
    let payload = || json!({"seq": seq_string(seq), "dict": dict, "format": fmt.name(), "op": opn, "order": order});
    let descr = || {
        format!(
            "{} {} of the chain [{}]{} ({} containers)",
            fmt.name(),
            opn,
            seq_rle(seq),
            if dict { " with dicts as the array kind" } else { "" },
            seq.len()
        )
    };
    let common = |v: Violation| {
        v.feat("format", fmt.name())
            .feat("op", opn)
            .feat("limit", limit_feature(seq))
            .feat("array_kind", if dict { "dict" } else { "array" })
    };
    let cls = obs.class();
    match (exp, obs) {
        (_, Obs::Skipped) => return "skipped".into(),
        (_, Obs::Panic(p)) => report.violation(common(Violation::new(
            "no-panic",
            format!("{}: panicked: {p}", descr()),
            payload(),
        ))),
        (Expect::Unjudged, _) => return format!("unjudged(dict-entry-reading)/{cls}"),
        (Expect::Ok, Obs::Ok) | (Expect::DepthError, Obs::Depth(_)) => {}
        (Expect::Ok, Obs::Depth(w)) => report.violation(common(
            Violation::new(
                "within-limits-succeeds",
                format!("{}: within all three limits but rejected with MaxDepthExceeded({w})", descr()),
                payload(),
            )
            .feat("observed", format!("depth-error:{w}")),
        )),
        (Expect::Ok, Obs::OtherError(e)) => report.violation(common(
            Violation::new(
                "within-limits-succeeds",
                format!("{}: within all three limits but failed with {e}", descr()),
                payload(),
            )
            .feat("observed", cls.clone()),
        )),
        (Expect::Ok, Obs::WrongValue(e)) => report.violation(common(
            Violation::new("within-limits-succeeds", format!("{}: {e}", descr()), payload())
                .feat("observed", "wrong-value"),
        )),
        (Expect::DepthError, Obs::Ok) | (Expect::DepthError, Obs::WrongValue(_)) => report.violation(common(
            Violation::new(
                "beyond-limits-fails",
                format!("{}: exceeds a limit ({}) but succeeded", descr(), limit_feature(seq)),
                payload(),
            )
            .feat("observed", "ok"),
        )),
        (Expect::DepthError, Obs::OtherError(e)) => report.violation(common(
            Violation::new(
                "failure-is-depth-error",
                format!("{}: exceeds a limit ({}) and failed, but not with a depth error: {e}", descr(), limit_feature(seq)),
                payload(),
            )
            .feat("observed", cls.clone()),
        )),
    }
    format!(
        "{}/{}",
        match exp {
            Expect::Ok => "within",
            Expect::DepthError => "beyond",
            Expect::Unjudged => "unjudged",
        },
        cls
    )
}

fn near_limit(seq: &[K]) -> bool {
    let a = seq.iter().filter(|k| **k == K::A).count();
    let s = seq.iter().filter(|k| **k == K::S).count();
    (30..=34).contains(&a) || (30..=34).contains(&s) || (62..=66).contains(&seq.len())
}

fn replay(path: &str) -> i32 {
    let art = vcommon::load_replay(path);
    let r = &art["replay"];
    let (Some(seq), Some(fmt)) = (
        r["seq"].as_str().and_then(seq_parse),
        r["format"].as_str().and_then(Fmt::parse),
    ) else {
        vcommon::machinery_failure("C07 replay: bad payload")
    };
    let dict = r["dict"].as_bool().unwrap_or(false);
    let op = if r["op"].as_str() == Some("decode") { Op::Decode } else { Op::Encode };
    let fds = FdTable::new(0);
    let v = build(&seq, dict);
    let obs = match op {
        Op::Encode => do_encode(&v, fmt, &fds),
        Op::Decode => do_decode(&v, fmt),
    };
    let exp = expect(&seq, dict);
    println!(
        "replay C07: {} {:?} of [{}] dict={dict} type {}",
        fmt.name(),
        op,
        seq_rle(&seq),
        v.ty().sig()
    );
    println!("expected by the statement: {exp:?}; observed: {obs:?}");
    let held = matches!(
        (exp, &obs),
        (Expect::Ok, Obs::Ok) | (Expect::DepthError, Obs::Depth(_)) | (Expect::Unjudged, _)
    );
    if held {
        0
    } else {
        1
    }
}

pub fn main(args: &Args) -> i32 {
    if let Some(p) = &args.replay {
        return replay(p);
    }
    let report = Report::new("C07", args.tier, args.seed, "exploration");
    crate::c05::keep_freed_memory();
    let thorough = args.tier == vcommon::Tier::Thorough;
    let b = args.tier.pick(36usize, 40usize);
    let side = b + 1;
    let fmts: Vec<Fmt> = if crate::c05::gv_enabled() {
        vec![Fmt::DBus, Fmt::GV]
    } else {
        report.cap("this build has no gvariant feature: GVariant half not run");
        vec![Fmt::DBus]
    };
    let fds = FdTable::new(0);
    let n_seq = std::sync::atomic::AtomicU64::new(0);
    vcommon::par_for(side * side * side, 2, |i| {
        let (a, s, v) = (i / (side * side), (i / side) % side, i % side);
        let mut seen: BTreeSet<Vec<K>> = BTreeSet::new();
        let mut classes: std::collections::BTreeMap<String, u64> = Default::default();
        let mut nontrivial = vec![];
        let mut evals = 0u64;
        for dict in [false, true] {
            if dict && a == 0 {
                continue; // identical to the array pass
            }
            // the dict pass runs the block orders and the first round-robin only on the planes
            // around the limits and on a coarse grid elsewhere (values are twice as expensive)
            if dict && !thorough && !(a % 4 == 0 || (30..=34).contains(&a)) {
                continue;
            }
            seen.clear();
            for (oname, seq) in orders(thorough, a, s, v) {
                if !seen.insert(seq.clone()) {
                    continue; // degenerate order (some count is 0)
                }
                n_seq.fetch_add(1, std::sync::atomic::Ordering::Relaxed);
                for fmt in &fmts {
                    for op in [Op::Encode, Op::Decode] {
                        let (seq_run, obs) = run(&seq, dict, *fmt, op, &fds);
                        let cls = judge(&report, oname, &seq_run, dict, *fmt, op, &obs);
                        evals += 1;
                        if near_limit(&seq_run) {
                            nontrivial.push(hash64(&(seq_string(&seq_run), dict, fmt.name(), op == Op::Encode)));
                        }
                        let key = format!(
                            "{}{}/{}/{}",
                            fmt.name(),
                            if dict { "+dict" } else { "" },
                            if op == Op::Encode { "encode" } else { "decode" },
                            cls
                        );
                        *classes.entry(key).or_insert(0) += 1;
                        if (a, s, v) == (32, 32, 0) || (a, s, v) == (33, 0, 0) || (a, s, v) == (20, 20, 25) {
                            report.sample(json!({"triple": [a, s, v], "order": oname, "dict": dict, "format": fmt.name(),
                                "op": if op == Op::Encode { "encode" } else { "decode" },
                                "expected": format!("{:?}", expect(&seq_run, dict)), "observed": obs.class()}));
                        }
                    }
                }
            }
        }
        report.eval(evals);
        report.nontrivial_many(nontrivial);
        for (k, n) in classes {
            report.outcome_n(&k, n);
        }
    });
    report.set("grid", json!(format!("0..={b} cubed")));
    report.set("distinct_sequences", json!(n_seq.load(std::sync::atomic::Ordering::Relaxed)));
    report.assume("reference encodings for the decode half come from refdbus / refgv (audited in C01/C05); the value chain uses one-element containers so every level is actually traversed");
    report.assume("for dicts the statement does not say whether a dict entry counts as a structure; cases on which the two readings differ are counted as unjudged");
    if !thorough {
        report.cap("quick tier: 4 of the 8 nesting orders; dict pass on the planes a ≡ 0 (mod 4) and a ∈ 30..=34 only");
    }
    report.finish(
        "all (arrays, structs, variants) triples × nesting orders × formats × {encode, decode}; non-trivial = a count within 2 of a limit (30..34 arrays or structs, 62..66 total)",
        true,
    )
}
