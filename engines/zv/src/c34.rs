//! C34 - introspection XML documents round-trip through the zbus_xml model.
//!
//! All fields of the model are private, so a document *value* can only be obtained by parsing.
//! The check generates introspection documents from the grammar (node / interface / method / signal
//! / property / arg / annotation) with its own XML printer, parses each with zbus_xml and checks
//!   accessors-return-content : the parsed value shows exactly the generator's content,
//!   write-succeeds / reparse-succeeds / roundtrip-equal : `parse(write(v)) == v` through both
//!     `Node::from_reader` and `TryFrom<&str>`.
//!
//! Space: nesting depth <= 2 nodes below the root, <= 2 children per list, names over 2 values
//! (+ absent where optional), signatures over 3, directions/access over all values (+ absent),
//! annotation values over {a, "", <, &, ", ', ]]>} (thorough: also " x ", é, tab, newline, >).
//! Every element kind's own attribute product is enumerated completely; lists are [] / every single
//! element / every element paired with its successor; the contexts above an element use base choice
//! (see `cap`). The full cross product of the grammar at these bounds is astronomically large.

use std::collections::BTreeMap;

use serde_json::json;
use vcommon::{hash64, Args, Report, Tier, Violation};
use zbus_xml::{ArgDirection, Node, PropertyAccess};

// ---------------------------------------------------------------------------------------------
// generator's own document tree and XML printer
// ---------------------------------------------------------------------------------------------

#[derive(Clone, Debug, PartialEq)]
pub struct GAnn {
    name: String,
    value: String,
}
#[derive(Clone, Debug, PartialEq)]
pub struct GArg {
    name: Option<String>,
    ty: String,
    dir: Option<&'static str>,
    anns: Vec<GAnn>,
}
#[derive(Clone, Debug, PartialEq)]
pub struct GMember {
    name: String,
    args: Vec<GArg>,
    anns: Vec<GAnn>,
}
#[derive(Clone, Debug, PartialEq)]
pub struct GProp {
    name: String,
    ty: String,
    access: &'static str,
    anns: Vec<GAnn>,
}
#[derive(Clone, Debug, PartialEq, Default)]
pub struct GIface {
    name: String,
    methods: Vec<GMember>,
    props: Vec<GProp>,
    signals: Vec<GMember>,
    anns: Vec<GAnn>,
}
#[derive(Clone, Debug, PartialEq, Default)]
pub struct GNode {
    name: Option<String>,
    ifaces: Vec<GIface>,
    nodes: Vec<GNode>,
}

fn esc(s: &str, out: &mut String) {
    for c in s.chars() {
        match c {
            '&' => out.push_str("&amp;"),
            '<' => out.push_str("&lt;"),
            '>' => out.push_str("&gt;"),
            '"' => out.push_str("&quot;"),
            '\'' => out.push_str("&apos;"),
            '\t' => out.push_str("&#9;"),
            '\n' => out.push_str("&#10;"),
            '\r' => out.push_str("&#13;"),
            c => out.push(c),
        }
    }
}

fn attr(k: &str, v: &str, out: &mut String) {
    out.push(' ');
    out.push_str(k);
    out.push_str("=\"");
    esc(v, out);
    out.push('"');
}

fn w_anns(a: &[GAnn], ind: usize, out: &mut String) {
    for x in a {
        out.push_str(&" ".repeat(ind));
        out.push_str("<annotation");
        attr("name", &x.name, out);
        attr("value", &x.value, out);
        out.push_str("/>\n");
    }
}

fn w_args(a: &[GArg], ind: usize, out: &mut String) {
    for x in a {
        out.push_str(&" ".repeat(ind));
        out.push_str("<arg");
        if let Some(n) = &x.name {
            attr("name", n, out);
        }
        attr("type", &x.ty, out);
        if let Some(d) = x.dir {
            attr("direction", d, out);
        }
        if x.anns.is_empty() {
            out.push_str("/>\n");
        } else {
            out.push_str(">\n");
            w_anns(&x.anns, ind + 2, out);
            out.push_str(&" ".repeat(ind));
            out.push_str("</arg>\n");
        }
    }
}

fn w_member(tag: &str, m: &GMember, ind: usize, out: &mut String) {
    out.push_str(&" ".repeat(ind));
    out.push('<');
    out.push_str(tag);
    attr("name", &m.name, out);
    if m.args.is_empty() && m.anns.is_empty() {
        out.push_str("/>\n");
        return;
    }
    out.push_str(">\n");
    w_args(&m.args, ind + 2, out);
    w_anns(&m.anns, ind + 2, out);
    out.push_str(&" ".repeat(ind));
    out.push_str("</");
    out.push_str(tag);
    out.push_str(">\n");
}

fn w_node(n: &GNode, ind: usize, out: &mut String) {
    out.push_str(&" ".repeat(ind));
    out.push_str("<node");
    if let Some(name) = &n.name {
        attr("name", name, out);
    }
    if n.ifaces.is_empty() && n.nodes.is_empty() {
        out.push_str("/>\n");
        return;
    }
    out.push_str(">\n");
    for i in &n.ifaces {
        out.push_str(&" ".repeat(ind + 2));
        out.push_str("<interface");
        attr("name", &i.name, out);
        out.push_str(">\n");
        for m in &i.methods {
            w_member("method", m, ind + 4, out);
        }
        for p in &i.props {
            out.push_str(&" ".repeat(ind + 4));
            out.push_str("<property");
            attr("name", &p.name, out);
            attr("type", &p.ty, out);
            attr("access", p.access, out);
            if p.anns.is_empty() {
                out.push_str("/>\n");
            } else {
                out.push_str(">\n");
                w_anns(&p.anns, ind + 6, out);
                out.push_str(&" ".repeat(ind + 4));
                out.push_str("</property>\n");
            }
        }
        for s in &i.signals {
            w_member("signal", s, ind + 4, out);
        }
        w_anns(&i.anns, ind + 4, out);
        out.push_str(&" ".repeat(ind + 2));
        out.push_str("</interface>\n");
    }
    for c in &n.nodes {
        w_node(c, ind + 2, out);
    }
    out.push_str(&" ".repeat(ind));
    out.push_str("</node>\n");
}

pub fn to_xml(n: &GNode) -> String {
    let mut s = String::from("<?xml version=\"1.0\" encoding=\"UTF-8\"?>\n");
    w_node(n, 0, &mut s);
    s
}

// ---------------------------------------------------------------------------------------------
// pools
// ---------------------------------------------------------------------------------------------

/// [] , every single element, every element followed by its successor.
fn lists_full<T: Clone>(pool: &[T]) -> Vec<Vec<T>> {
    let mut out = vec![vec![]];
    for x in pool {
        out.push(vec![x.clone()]);
    }
    if pool.len() >= 2 {
        for (i, x) in pool.iter().enumerate() {
            out.push(vec![x.clone(), pool[(i + 1) % pool.len()].clone()]);
        }
    }
    out
}

/// [] , [first], [second-to-last, last]
fn lists_small<T: Clone>(pool: &[T]) -> Vec<Vec<T>> {
    let n = pool.len();
    vec![vec![], vec![pool[0].clone()], vec![pool[n - 2].clone(), pool[n - 1].clone()]]
}

pub struct Pools {
    ann_values: Vec<String>,
    anns: Vec<GAnn>,
    args: Vec<GArg>,
    members: Vec<GMember>,
    props: Vec<GProp>,
    ifaces: Vec<GIface>,
}

const SIGS: [&str; 3] = ["s", "a{sv}", "(ii)"];
const MEMBER_NAMES: [&str; 2] = ["M", "m_1"];
const PROP_NAMES: [&str; 2] = ["P", "p-1"];
const IFACE_NAMES: [&str; 2] = ["a.b", "org.freedesktop.DBus.X1"];
const ANN_NAMES: [&str; 2] = ["org.freedesktop.DBus.Deprecated", "a.b"];
const ARG_NAMES: [Option<&str>; 3] = [None, Some("x"), Some("arg_1")];
const DIRS: [Option<&str>; 3] = [None, Some("in"), Some("out")];
const ACCESS: [&str; 3] = ["read", "write", "readwrite"];
const NODE_NAMES: [Option<&str>; 3] = [None, Some("b"), Some("/a/b")];

pub fn pools(tier: Tier) -> Pools {
    let mut ann_values: Vec<String> = ["a", "", "<", "&", "\"", "'", "]]>"].iter().map(|s| s.to_string()).collect();
    if tier == Tier::Thorough {
        ann_values.extend([" x ", "é", "a\tb", "a\nb", ">", "&amp;", "<![CDATA[x]]>"].iter().map(|s| s.to_string()));
    }
    let mut anns = vec![];
    for n in ANN_NAMES {
        for v in &ann_values {
            anns.push(GAnn { name: n.into(), value: v.clone() });
        }
    }
    let ann_small = lists_small(&anns);
    let ann_full = lists_full(&anns);

    let mut args = vec![];
    for n in ARG_NAMES {
        for t in SIGS {
            for d in DIRS {
                for a in &ann_small {
                    args.push(GArg { name: n.map(|s| s.to_string()), ty: t.into(), dir: d, anns: a.clone() });
                }
            }
        }
    }
    for a in &ann_full {
        args.push(GArg { name: Some("x".into()), ty: "s".into(), dir: Some("in"), anns: a.clone() });
    }
    let arg_small = lists_small(&args);
    let arg_full = lists_full(&args);

    let mut members = vec![];
    for n in MEMBER_NAMES {
        for al in &arg_full {
            for an in &ann_small {
                members.push(GMember { name: n.into(), args: al.clone(), anns: an.clone() });
            }
        }
        for al in &arg_small {
            for an in &ann_full {
                members.push(GMember { name: n.into(), args: al.clone(), anns: an.clone() });
            }
        }
    }
    members.dedup();

    let mut props = vec![];
    for n in PROP_NAMES {
        for t in SIGS {
            for ac in ACCESS {
                for an in &ann_full {
                    props.push(GProp { name: n.into(), ty: t.into(), access: ac, anns: an.clone() });
                }
            }
        }
    }

    let mem_small = lists_small(&members);
    let mem_full = lists_full(&members);
    let prop_small = lists_small(&props);
    let prop_full = lists_full(&props);
    let mut ifaces = vec![];
    for n in IFACE_NAMES {
        let base = GIface { name: n.into(), ..Default::default() };
        // all combinations of the small lists
        for m in &mem_small {
            for p in &prop_small {
                for s in &mem_small {
                    for a in &ann_small {
                        ifaces.push(GIface { methods: m.clone(), props: p.clone(), signals: s.clone(), anns: a.clone(), ..base.clone() });
                    }
                }
            }
        }
        // each list varied alone over its full set
        for m in &mem_full {
            ifaces.push(GIface { methods: m.clone(), ..base.clone() });
            ifaces.push(GIface { signals: m.clone(), ..base.clone() });
        }
        for p in &prop_full {
            ifaces.push(GIface { props: p.clone(), ..base.clone() });
        }
        for a in &ann_full {
            ifaces.push(GIface { anns: a.clone(), ..base.clone() });
        }
    }
    Pools { ann_values, anns, args, members, props, ifaces }
}

/// The documents: (a) every interface of the pool alone and paired with its successor under an
/// unnamed root, (b) node shapes to depth 2 with the small interface lists.
pub enum Spec {
    Single(usize),
    Pair(usize),
    Shape(usize),
}

pub fn shapes(p: &Pools) -> Vec<GNode> {
    let if_small = lists_small(&p.ifaces);
    // grandchildren: leaf nodes
    let mut leaves = vec![];
    for n in NODE_NAMES {
        for i in &if_small {
            leaves.push(GNode { name: n.map(|s| s.to_string()), ifaces: i.clone(), nodes: vec![] });
        }
    }
    let leaf_small = lists_small(&leaves);
    let mut children = vec![];
    for n in NODE_NAMES {
        for i in &if_small {
            for g in &leaf_small {
                children.push(GNode { name: n.map(|s| s.to_string()), ifaces: i.clone(), nodes: g.clone() });
            }
        }
    }
    let child_full = lists_full(&children);
    let mut out = vec![];
    for n in NODE_NAMES {
        for i in &if_small {
            for c in &child_full {
                out.push(GNode { name: n.map(|s| s.to_string()), ifaces: i.clone(), nodes: c.clone() });
            }
        }
    }
    out
}

fn build(spec: &Spec, p: &Pools, sh: &[GNode]) -> GNode {
    match spec {
        Spec::Single(i) => GNode { name: None, ifaces: vec![p.ifaces[*i].clone()], nodes: vec![] },
        Spec::Pair(i) => GNode {
            name: Some("/a".into()),
            ifaces: vec![p.ifaces[*i].clone(), p.ifaces[(*i + 1) % p.ifaces.len()].clone()],
            nodes: vec![],
        },
        Spec::Shape(i) => sh[*i].clone(),
    }
}

// ---------------------------------------------------------------------------------------------
// comparison of a parsed value with generator content, and of two parsed values
// ---------------------------------------------------------------------------------------------

/// A difference: (element kind . attribute, expected, got, expected-was-absent).
#[derive(Clone, Debug)]
pub struct Diff {
    kind: String,
    exp: String,
    got: String,
    exp_absent: bool,
}

fn d(out: &mut Vec<Diff>, kind: &str, exp: impl ToString, got: impl ToString) {
    out.push(Diff { kind: kind.to_string(), exp: exp.to_string(), got: got.to_string(), exp_absent: false });
}
fn d_opt(out: &mut Vec<Diff>, kind: &str, exp: Option<&str>, got: Option<&str>) {
    if exp != got {
        out.push(Diff { kind: kind.to_string(), exp: format!("{exp:?}"), got: format!("{got:?}"), exp_absent: exp.is_none() });
    }
}

fn cmp_anns(ctx: &str, g: &[GAnn], a: &[zbus_xml::Annotation], out: &mut Vec<Diff>) {
    if g.len() != a.len() {
        d(out, &format!("{ctx}.annotations.len"), g.len(), a.len());
    }
    for (x, y) in g.iter().zip(a) {
        if x.name != y.name() {
            d(out, "annotation.name", &x.name, y.name());
        }
        if x.value != y.value() {
            d(out, "annotation.value", &x.value, y.value());
        }
    }
}

fn cmp_args(g: &[GArg], a: &[zbus_xml::Arg], out: &mut Vec<Diff>) {
    if g.len() != a.len() {
        d(out, "member.args.len", g.len(), a.len());
    }
    for (x, y) in g.iter().zip(a) {
        d_opt(out, "arg.name", x.name.as_deref(), y.name());
        if y.ty().to_string() != x.ty || !(**y.ty() == x.ty.as_str()) {
            d(out, "arg.type", &x.ty, y.ty().to_string());
        }
        let dir = y.direction().map(|v| match v {
            ArgDirection::In => "in",
            ArgDirection::Out => "out",
        });
        d_opt(out, "arg.direction", x.dir, dir);
        cmp_anns("arg", &x.anns, y.annotations(), out);
    }
}

/// Every difference between the generator's content and a parsed value.
fn cmp_content(g: &GNode, n: &Node<'_>, out: &mut Vec<Diff>) {
    d_opt(out, "node.name", g.name.as_deref(), n.name());
    if g.ifaces.len() != n.interfaces().len() {
        d(out, "node.interfaces.len", g.ifaces.len(), n.interfaces().len());
    }
    for (gi, i) in g.ifaces.iter().zip(n.interfaces()) {
        if gi.name != i.name().as_str() {
            d(out, "interface.name", &gi.name, i.name());
        }
        if gi.methods.len() != i.methods().len() {
            d(out, "interface.methods.len", gi.methods.len(), i.methods().len());
        }
        for (gm, m) in gi.methods.iter().zip(i.methods()) {
            if gm.name != m.name().as_str() {
                d(out, "method.name", &gm.name, m.name());
            }
            cmp_args(&gm.args, m.args(), out);
            cmp_anns("method", &gm.anns, m.annotations(), out);
        }
        if gi.signals.len() != i.signals().len() {
            d(out, "interface.signals.len", gi.signals.len(), i.signals().len());
        }
        for (gm, m) in gi.signals.iter().zip(i.signals()) {
            if gm.name != m.name().as_str() {
                d(out, "signal.name", &gm.name, m.name());
            }
            cmp_args(&gm.args, m.args(), out);
            cmp_anns("signal", &gm.anns, m.annotations(), out);
        }
        if gi.props.len() != i.properties().len() {
            d(out, "interface.properties.len", gi.props.len(), i.properties().len());
        }
        for (gp, p) in gi.props.iter().zip(i.properties()) {
            if gp.name != p.name().as_str() {
                d(out, "property.name", &gp.name, p.name());
            }
            if p.ty().to_string() != gp.ty {
                d(out, "property.type", &gp.ty, p.ty().to_string());
            }
            let acc = match p.access() {
                PropertyAccess::Read => "read",
                PropertyAccess::Write => "write",
                PropertyAccess::ReadWrite => "readwrite",
            };
            if acc != gp.access || p.access().read() != gp.access.starts_with("read") || p.access().write() != gp.access.ends_with("write") {
                d(out, "property.access", gp.access, acc);
            }
            cmp_anns("property", &gp.anns, p.annotations(), out);
        }
        cmp_anns("interface", &gi.anns, i.annotations(), out);
    }
    if g.nodes.len() != n.nodes().len() {
        d(out, "node.nodes.len", g.nodes.len(), n.nodes().len());
    }
    for (gc, c) in g.nodes.iter().zip(n.nodes()) {
        cmp_content(gc, c, out);
    }
}

fn has_absent_direction(g: &GNode) -> bool {
    g.ifaces.iter().any(|i| i.methods.iter().chain(&i.signals).any(|m| m.args.iter().any(|a| a.dir.is_none()))) || g.nodes.iter().any(has_absent_direction)
}

fn special_of(s: &str) -> &'static str {
    for (c, n) in [("]]>", "cdata-end"), ("<", "lt"), ("&", "amp"), ("\"", "quot"), ("'", "apos"), (">", "gt"), ("\t", "tab"), ("\n", "newline"), ("é", "non-ascii")] {
        if s.contains(c) {
            return n;
        }
    }
    if s.is_empty() {
        "empty"
    } else if s.starts_with(' ') || s.ends_with(' ') {
        "outer-space"
    } else {
        "none"
    }
}

type Feats = BTreeMap<&'static str, String>;

pub struct Obs {
    pub class: &'static str,
    pub fails: Vec<(&'static str, String, Feats)>,
}

fn diff_fails(clause: &'static str, prefix: &str, diffs: &[Diff]) -> Vec<(&'static str, String, Feats)> {
    let mut seen = std::collections::BTreeSet::new();
    let mut out = vec![];
    for x in diffs {
        let f: Feats = BTreeMap::from([
            ("where", x.kind.clone()),
            ("special", special_of(&x.exp).to_string()),
            ("expected_absent", x.exp_absent.to_string()),
        ]);
        if seen.insert(format!("{f:?}")) {
            out.push((clause, format!("{prefix} at {}: document says {}, value has {}", x.kind, x.exp, x.got), f));
        }
    }
    out
}

pub fn check_doc(g: &GNode, xml: &str) -> Obs {
    let r = vcommon::catch(|| -> Obs {
        let simple = |w: &str| -> Feats { BTreeMap::from([("where", w.to_string())]) };
        let n1 = match Node::from_reader(xml.as_bytes()) {
            Ok(n) => n,
            Err(e) => return Obs { class: "generated-document-not-parsed", fails: vec![("parse-generated", format!("zbus_xml cannot parse the generated document: {e}"), Feats::new())] },
        };
        let mut diffs = vec![];
        cmp_content(g, &n1, &mut diffs);
        if !diffs.is_empty() {
            return Obs { class: "content-differs", fails: diff_fails("accessors-return-content", "parsed value differs from the document", &diffs) };
        }
        // the borrowed-str parser must give the same value
        match Node::try_from(xml) {
            Ok(n) if n == n1 => {}
            Ok(_) => return Obs { class: "parsers-differ", fails: vec![("roundtrip-equal", "TryFrom<&str> and from_reader give different values for the same document".into(), simple("parsers"))] },
            Err(e) => return Obs { class: "parsers-differ", fails: vec![("reparse-succeeds", format!("TryFrom<&str> fails on a document from_reader accepts: {e}"), simple("parsers"))] },
        }
        let mut buf = vec![];
        if let Err(e) = n1.to_writer(&mut buf) {
            return Obs { class: "write-failed", fails: vec![("write-succeeds", format!("to_writer failed: {e}"), simple("write"))] };
        }
        let written = match String::from_utf8(buf) {
            Ok(s) => s,
            Err(_) => return Obs { class: "write-failed", fails: vec![("write-succeeds", "to_writer produced invalid UTF-8".into(), simple("write"))] },
        };
        let mut class = "roundtrip-equal";
        let mut fails = vec![];
        for (route, n2) in [("from_reader", Node::from_reader(written.as_bytes())), ("TryFrom<&str>", Node::try_from(written.as_str()))] {
            match n2 {
                Err(e) => {
                    class = "reparse-failed";
                    let mut f = simple("reparse");
                    f.insert("route", route.to_string());
                    f.insert("doc_has_arg_without_direction", has_absent_direction(g).to_string());
                    fails.push(("reparse-succeeds", format!("{route} cannot read what to_writer wrote: {e}; written: {}", written.replace('\n', " ")), f));
                }
                Ok(n2) => {
                    if n2 != n1 || n1 != n2 {
                        if class == "roundtrip-equal" {
                            class = "roundtrip-differs";
                        }
                        // locate the differences through the generator's content (n1 matched it)
                        let mut diffs = vec![];
                        cmp_content(g, &n2, &mut diffs);
                        if diffs.is_empty() {
                            fails.push(("roundtrip-equal", format!("{route}(write(v)) != v but no accessor shows a difference"), simple("unlocated")));
                        }
                        for mut f in diff_fails("roundtrip-equal", &format!("{route}(write(v)) != v"), &diffs) {
                            f.2.insert("route", route.to_string());
                            fails.push(f);
                        }
                    }
                }
            }
        }
        Obs { class, fails }
    });
    match r {
        Ok(o) => o,
        Err(m) => Obs { class: "panicked", fails: vec![("no-panic", format!("panicked: {m} at {}", vcommon::last_panic_location()), Feats::new())] },
    }
}

// ---------------------------------------------------------------------------------------------
// main
// ---------------------------------------------------------------------------------------------

#[derive(Default)]
struct Local {
    evals: u64,
    outcomes: BTreeMap<String, u64>,
    nontrivial: Vec<u64>,
    viol: BTreeMap<String, (u64, Option<Violation>)>,
    samples: Vec<serde_json::Value>,
}

pub fn main(args: &Args) -> i32 {
    if let Some(p) = &args.replay {
        return replay(p);
    }
    let report = Report::new("C34", args.tier, args.seed, "exploration");
    let p = pools(args.tier);
    let sh = shapes(&p);
    let mut specs: Vec<Spec> = vec![];
    specs.extend((0..sh.len()).map(Spec::Shape));
    specs.extend((0..p.ifaces.len()).map(Spec::Single));
    specs.extend((0..p.ifaces.len()).map(Spec::Pair));
    report.set(
        "pool_sizes",
        json!({"annotation_values": p.ann_values.len(), "annotations": p.anns.len(), "args": p.args.len(), "methods_or_signals": p.members.len(),
               "properties": p.props.len(), "interfaces": p.ifaces.len(), "node_shapes": sh.len()}),
    );

    const BLOCK: usize = 256;
    let n_blocks = specs.len().div_ceil(BLOCK);
    let run_block = |b: usize| {
        let mut loc = Local::default();
        for k in b * BLOCK..((b + 1) * BLOCK).min(specs.len()) {
            let g = build(&specs[k], &p, &sh);
            let xml = to_xml(&g);
            let o = check_doc(&g, &xml);
            loc.evals += 1;
            let shape = match &specs[k] {
                Spec::Shape(_) => "node-tree",
                Spec::Single(_) => "one-interface",
                Spec::Pair(_) => "two-interfaces",
            };
            *loc.outcomes.entry(format!("{shape}:{}", o.class)).or_insert(0) += 1;
            // non-trivial: the document has at least one interface member/annotation or a child node
            let nontrivial = !g.nodes.is_empty() || g.ifaces.iter().any(|i| !i.methods.is_empty() || !i.props.is_empty() || !i.signals.is_empty() || !i.anns.is_empty());
            if nontrivial {
                loc.nontrivial.push(hash64(&xml));
                if loc.samples.is_empty() && xml.len() > 300 && xml.len() < 900 {
                    loc.samples.push(json!({"document": xml, "outcome": o.class}));
                }
            }
            for (clause, detail, feats) in o.fails {
                let id = format!("{clause} {feats:?}");
                let e = loc.viol.entry(id).or_insert((0, None));
                e.0 += 1;
                if e.1.is_none() {
                    let mut v = Violation::new(clause, detail, json!({"xml": xml}));
                    for (k, val) in feats {
                        v = v.feat(k, val);
                    }
                    e.1 = Some(v);
                }
            }
        }
        report.eval(loc.evals);
        for (k, n) in &loc.outcomes {
            report.outcome_n(k, *n);
        }
        report.nontrivial_many(loc.nontrivial);
        for (_, (n, v)) in loc.viol {
            report.add("violating_documents", n);
            if let Some(v) = v {
                report.violation(v);
            }
        }
        for s in loc.samples {
            if report.n_samples() < 4 {
                report.sample(s);
            }
        }
    };
    // the node-shape documents (smallest) first and alone, so the kept witnesses are small
    run_block(0);
    vcommon::par_for(n_blocks.saturating_sub(1), 1, |b| run_block(b + 1));

    report.set("documents", json!(specs.len()));
    report.cap("the full cross product of the grammar at depth 2 / <= 2 children is not enumerable; each element kind's own attribute product is complete, lists are [] / each single / each adjacent pair, and the contexts above an element use base choice (small lists)");
    report.assume("the generator's XML printer escapes & < > \" ' (and tab/newline as character references) in attribute values; python3 expat reads these documents identically (checked once while building the check)");
    report.assume("same-named children are written contiguously (methods, properties, signals, annotations), the order zbus_xml itself writes");
    report.finish(
        "documents = node trees to depth 2 over the small interface lists + every interface of the pool alone and paired with its successor; non-trivial = has a member, annotation or child node; distinct by generated XML text",
        true,
    )
}

fn replay(path: &str) -> i32 {
    let v = vcommon::load_replay(path);
    let Some(xml) = v["replay"]["xml"].as_str() else {
        vcommon::machinery_failure("C34 replay: artefact needs replay.xml");
    };
    println!("C34 replay: document\n{xml}");
    let n1 = match vcommon::catch(|| Node::from_reader(xml.as_bytes())) {
        Ok(Ok(n)) => n,
        Ok(Err(e)) => {
            println!("  parse failed: {e}\nC34 replay: reproduced (document not parsed)");
            return 1;
        }
        Err(m) => {
            println!("  parse panicked: {m}\nC34 replay: reproduced");
            return 1;
        }
    };
    let mut buf = vec![];
    let w = n1.to_writer(&mut buf);
    let written = String::from_utf8_lossy(&buf).to_string();
    println!("  to_writer: {:?}\n  written: {written}", w.as_ref().map_err(|e| e.to_string()));
    let n2 = Node::from_reader(written.as_bytes());
    match n2 {
        Ok(n2) if n2 == n1 => {
            println!("  parse(write(v)) == v\nC34 replay: not reproduced (accessor-level mismatches need the generator; run the check)");
            0
        }
        Ok(n2) => {
            println!("  parse(write(v)) != v\n  v  = {n1:?}\n  v' = {n2:?}\nC34 replay: reproduced");
            1
        }
        Err(e) => {
            println!("  re-parse failed: {e}\nC34 replay: reproduced");
            1
        }
    }
}
