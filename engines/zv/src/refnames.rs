//! Reference acceptors for the validated string types, written from the D-Bus specification
//! ("Valid Names", "Valid Object Paths", "UUIDs"), independent of zbus_names / zvariant / zbus.
//!
//! All names: at most 255 bytes, ASCII only. "Element" = the pieces between `.`.
//!
//! * interface / error name: >= 2 elements, each non-empty, `[A-Za-z_][A-Za-z0-9_]*`.
//! * well-known bus name: >= 2 elements, each non-empty, `[A-Za-z_-][A-Za-z0-9_-]*`.
//! * unique connection name: `:` then >= 2 elements, each non-empty, `[A-Za-z0-9_-]+` (digits may
//!   lead). zbus additionally documents `org.freedesktop.DBus` as a unique name (the bus driver's
//!   sender) - that is part of `unique_name`, while `unique_name_spec` is the bare spec grammar.
//! * bus name: unique or well-known.
//! * member name: one element `[A-Za-z_][A-Za-z0-9_]*`, 1..=255 bytes, no `.`.
//! * property name: the specification gives no grammar beyond being a string ("not required to
//!   follow the same naming restrictions as member names"); zbus documents 1..=255 bytes and that
//!   is what the reference uses.
//! * object path: `/` alone, or `/`-introduced non-empty elements of `[A-Za-z0-9_]`, no trailing
//!   `/`, no `//`; no length limit.
//! * GUID: exactly 32 hexadecimal digits (either case).

pub const MAX_NAME: usize = 255;

fn alpha_(b: u8) -> bool {
    b.is_ascii_alphabetic() || b == b'_'
}
fn alnum_(b: u8) -> bool {
    b.is_ascii_alphanumeric() || b == b'_'
}

/// `first` = predicate on an element's first byte, `rest` = on the following bytes.
fn elements(s: &str, min: usize, first: fn(u8) -> bool, rest: fn(u8) -> bool) -> bool {
    let mut n = 0;
    for el in s.split('.') {
        let b = el.as_bytes();
        if b.is_empty() || !first(b[0]) || !b[1..].iter().all(|c| rest(*c)) {
            return false;
        }
        n += 1;
    }
    n >= min
}

pub fn interface_name(s: &str) -> bool {
    s.len() <= MAX_NAME && elements(s, 2, alpha_, alnum_)
}

pub fn error_name(s: &str) -> bool {
    interface_name(s)
}

pub fn member_name(s: &str) -> bool {
    !s.is_empty() && s.len() <= MAX_NAME && elements(s, 1, alpha_, alnum_) && !s.contains('.')
}

pub fn well_known_name(s: &str) -> bool {
    fn f(b: u8) -> bool {
        alpha_(b) || b == b'-'
    }
    fn r(b: u8) -> bool {
        alnum_(b) || b == b'-'
    }
    s.len() <= MAX_NAME && elements(s, 2, f, r)
}

/// The specification's unique-connection-name grammar.
pub fn unique_name_spec(s: &str) -> bool {
    fn r(b: u8) -> bool {
        alnum_(b) || b == b'-'
    }
    match s.strip_prefix(':') {
        Some(rest) => s.len() <= MAX_NAME && elements(rest, 2, r, r),
        None => false,
    }
}

/// Unique name as zbus documents it: the spec grammar plus the bus driver's own name.
pub fn unique_name(s: &str) -> bool {
    unique_name_spec(s) || s == "org.freedesktop.DBus"
}

pub fn bus_name(s: &str) -> bool {
    unique_name_spec(s) || well_known_name(s)
}

pub fn property_name(s: &str) -> bool {
    !s.is_empty() && s.len() <= MAX_NAME
}

pub fn object_path(s: &str) -> bool {
    let b = s.as_bytes();
    if b.first() != Some(&b'/') {
        return false;
    }
    if b.len() == 1 {
        return true;
    }
    let mut prev_slash = true; // b[0]
    for c in &b[1..] {
        if *c == b'/' {
            if prev_slash {
                return false;
            }
            prev_slash = true;
        } else if alnum_(*c) {
            prev_slash = false;
        } else {
            return false;
        }
    }
    !prev_slash
}

pub fn guid(s: &str) -> bool {
    s.len() == 32 && s.bytes().all(|b| b.is_ascii_hexdigit())
}

#[derive(Clone, Copy, Debug, PartialEq, Eq, PartialOrd, Ord, Hash)]
pub enum Kind {
    BusName,
    UniqueName,
    WellKnownName,
    InterfaceName,
    MemberName,
    ErrorName,
    PropertyName,
    ObjectPath,
}

pub const KINDS: [Kind; 8] = [
    Kind::BusName,
    Kind::UniqueName,
    Kind::WellKnownName,
    Kind::InterfaceName,
    Kind::MemberName,
    Kind::ErrorName,
    Kind::PropertyName,
    Kind::ObjectPath,
];

impl Kind {
    pub fn name(self) -> &'static str {
        match self {
            Kind::BusName => "BusName",
            Kind::UniqueName => "UniqueName",
            Kind::WellKnownName => "WellKnownName",
            Kind::InterfaceName => "InterfaceName",
            Kind::MemberName => "MemberName",
            Kind::ErrorName => "ErrorName",
            Kind::PropertyName => "PropertyName",
            Kind::ObjectPath => "ObjectPath",
        }
    }
    pub fn from_name(s: &str) -> Option<Kind> {
        KINDS.iter().copied().find(|k| k.name() == s)
    }
    pub fn accepts(self, s: &str) -> bool {
        match self {
            Kind::BusName => bus_name(s),
            Kind::UniqueName => unique_name(s),
            Kind::WellKnownName => well_known_name(s),
            Kind::InterfaceName => interface_name(s),
            Kind::MemberName => member_name(s),
            Kind::ErrorName => error_name(s),
            Kind::PropertyName => property_name(s),
            Kind::ObjectPath => object_path(s),
        }
    }
}
