//! C10 - names and object paths are validated exactly per the specification, identically on every
//! construction route. (The GUID part lives in the zb crate: engines/zb/src/c10guid.rs.)
//!
//! Space: every string of length <= 6 (quick) / <= 7 (thorough) over the 10 symbols
//! `a Z 0 _ - . : / é ' '`, plus boundary strings of 254..=257 bytes (and 255/256-byte strings made
//! of two-byte characters), each presented to every validated type through every construction
//! route. Oracle: route accepts <=> `refnames` accepts, and an accepted value holds the input.

use std::{
    borrow::Cow,
    collections::BTreeMap,
    ffi::{c_char, c_void, CString},
    sync::Arc,
};

use serde_json::json;
use vcommon::{enumerate, hash64, Args, Report, Violation};
use zbus_names::{
    BusName, ErrorName, InterfaceName, MemberName, OwnedBusName, OwnedErrorName,
    OwnedInterfaceName, OwnedMemberName, OwnedPropertyName, OwnedUniqueName, OwnedWellKnownName,
    PropertyName, UniqueName, WellKnownName,
};
use zvariant::{
    serialized::{Context, Data},
    ObjectPath, OwnedObjectPath, OwnedValue, Str, Value, LE,
};

use crate::refnames::{self, Kind, KINDS};

pub const ALPHABET: [&str; 10] = ["a", "Z", "0", "_", "-", ".", ":", "/", "é", " "];

// ---------------------------------------------------------------------------------------------
// libdbus through dlopen (audit only; never decides a verdict)
// ---------------------------------------------------------------------------------------------

type ValidateFn = unsafe extern "C" fn(*const c_char, *mut c_void) -> u32;

pub struct LibDbus {
    pub validate_path: ValidateFn,
    pub validate_interface: ValidateFn,
    pub validate_member: ValidateFn,
    pub validate_error_name: ValidateFn,
    pub validate_bus_name: ValidateFn,
    pub signature_validate: ValidateFn,
}
unsafe impl Sync for LibDbus {}
unsafe impl Send for LibDbus {}

impl LibDbus {
    pub fn open() -> Option<LibDbus> {
        unsafe {
            let name = CString::new("libdbus-1.so.3").unwrap();
            let h = libc::dlopen(name.as_ptr(), libc::RTLD_NOW | libc::RTLD_LOCAL);
            if h.is_null() {
                return None;
            }
            let sym = |n: &str| -> Option<ValidateFn> {
                let c = CString::new(n).unwrap();
                let p = libc::dlsym(h, c.as_ptr());
                if p.is_null() {
                    None
                } else {
                    Some(std::mem::transmute::<*mut c_void, ValidateFn>(p))
                }
            };
            Some(LibDbus {
                validate_path: sym("dbus_validate_path")?,
                validate_interface: sym("dbus_validate_interface")?,
                validate_member: sym("dbus_validate_member")?,
                validate_error_name: sym("dbus_validate_error_name")?,
                validate_bus_name: sym("dbus_validate_bus_name")?,
                signature_validate: sym("dbus_signature_validate")?,
            })
        }
    }
    pub fn call(&self, f: ValidateFn, s: &str) -> bool {
        let c = CString::new(s).expect("no NUL in enumerated strings");
        unsafe { f(c.as_ptr(), std::ptr::null_mut()) != 0 }
    }
}

/// libdbus is knowingly laxer than the specification for unique names: after the `:` it neither
/// requires a `.` (two elements) nor a non-empty first element (`:`, `:a`, `:.a` pass
/// `dbus_validate_bus_name`). The specification text ("must contain at least one '.'", "all elements
/// must contain at least one character") is what the reference follows; this class is masked in the
/// audit and counted in the evidence.
pub fn libdbus_lax_unique(s: &str) -> bool {
    match s.strip_prefix(':') {
        Some(rest) => !rest.contains('.') || rest.starts_with('.'),
        None => false,
    }
}

/// Compare every `refnames` acceptor that has a libdbus counterpart; returns the first
/// disagreement. `masked` counts the strings excused by `libdbus_lax_unique`.
fn audit_one(lib: &LibDbus, s: &str, masked: &mut u64) -> Option<String> {
    let lib_bus = lib.call(lib.validate_bus_name, s);
    let pairs: [(&str, bool, bool); 7] = [
        ("object_path", refnames::object_path(s), lib.call(lib.validate_path, s)),
        ("interface_name", refnames::interface_name(s), lib.call(lib.validate_interface, s)),
        ("member_name", refnames::member_name(s), lib.call(lib.validate_member, s)),
        ("error_name", refnames::error_name(s), lib.call(lib.validate_error_name, s)),
        ("bus_name", refnames::bus_name(s), lib_bus),
        ("unique_name_spec", refnames::unique_name_spec(s), s.starts_with(':') && lib_bus),
        ("well_known_name", refnames::well_known_name(s), !s.starts_with(':') && lib_bus),
    ];
    let mut was_masked = false;
    for (what, r, l) in pairs {
        if r != l {
            if !r && l && libdbus_lax_unique(s) && (what == "bus_name" || what == "unique_name_spec") {
                was_masked = true;
                continue;
            }
            return Some(format!("refnames::{what}({s:?}) = {r} but libdbus says {l}"));
        }
    }
    if was_masked {
        *masked += 1;
    }
    None
}

// ---------------------------------------------------------------------------------------------
// routes
// ---------------------------------------------------------------------------------------------

#[derive(Clone, Debug, PartialEq)]
pub enum Out {
    Accepted,
    Rejected,
    /// accepted, but the constructed value does not hold the input string
    Altered(String),
    Panicked(String),
}

impl Out {
    fn accepted(&self) -> bool {
        matches!(self, Out::Accepted | Out::Altered(_))
    }
    fn show(&self) -> String {
        match self {
            Out::Accepted => "accepted".into(),
            Out::Rejected => "rejected".into(),
            Out::Altered(s) => format!("accepted but holds {s:?}"),
            Out::Panicked(m) => format!("panicked: {m}"),
        }
    }
}

pub struct RouteObs {
    pub route: &'static str,
    /// coarse family used for finding identity: str | static | value | deserialize
    pub group: &'static str,
    pub out: Out,
}

fn obs<T, E>(
    out: &mut Vec<RouteObs>,
    route: &'static str,
    group: &'static str,
    s: &str,
    f: impl FnOnce() -> Result<T, E>,
    held: impl FnOnce(&T) -> String,
) {
    let o = match vcommon::catch(|| f().ok().map(|t| held(&t))) {
        Ok(Some(h)) if h == s => Out::Accepted,
        Ok(Some(h)) => Out::Altered(h),
        Ok(None) => Out::Rejected,
        Err(m) => Out::Panicked(m),
    };
    out.push(RouteObs { route, group, out: o });
}

/// Reference D-Bus encoding of a string / object path (`s`/`o`): u32 length, bytes, NUL.
fn enc_dbus_string(s: &str) -> Vec<u8> {
    let mut b = (s.len() as u32).to_le_bytes().to_vec();
    b.extend_from_slice(s.as_bytes());
    b.push(0);
    b
}
/// Reference GVariant encoding of a string: bytes, NUL.
fn enc_gv_string(s: &str) -> Vec<u8> {
    let mut b = s.as_bytes().to_vec();
    b.push(0);
    b
}
/// Reference D-Bus encoding of a variant holding a value of one-letter string-like type `code`.
fn enc_dbus_variant(code: u8, s: &str) -> Vec<u8> {
    let mut b = vec![1, code, 0, 0];
    b.extend_from_slice(&enc_dbus_string(s));
    b
}

macro_rules! name_routes {
    ($fname:ident, $T:ident, $Owned:ident) => {
        fn $fname(s: &str, out: &mut Vec<RouteObs>) {
            // SAFETY: the value built from `st` is dropped inside `obs`, before `s` goes away.
            let st: &'static str = unsafe { std::mem::transmute::<&str, &'static str>(s) };
            let h = |t: &$T<'_>| t.as_str().to_string();
            let ho = |t: &$Owned| t.as_str().to_string();
            obs(out, "try_from(&str)", "str", s, || $T::try_from(s), h);
            obs(out, "try_from(String)", "str", s, || $T::try_from(s.to_string()), h);
            obs(out, "try_from(Cow<str>)", "str", s, || $T::try_from(Cow::Borrowed(s)), h);
            obs(out, "try_from(Arc<str>)", "str", s, || $T::try_from(Arc::<str>::from(s)), h);
            obs(out, "try_from(Str)", "str", s, || $T::try_from(Str::from(s)), h);
            obs(out, "from_static_str", "static", s, || $T::from_static_str(st), h);
            obs(out, "try_from(Value)", "value", s, || $T::try_from(Value::from(s)), h);
            obs(
                out,
                "try_from(OwnedValue)",
                "value",
                s,
                || $T::try_from(OwnedValue::try_from(Value::from(s)).unwrap()),
                h,
            );
            obs(out, "Owned::try_from(&str)", "str", s, || $Owned::try_from(s), ho);
            obs(out, "Owned::try_from(String)", "str", s, || $Owned::try_from(s.to_string()), ho);
            obs(
                out,
                "Owned::try_from(Value)",
                "value",
                s,
                || $Owned::try_from(Value::from(s.to_string())),
                ho,
            );
            obs(
                out,
                "Owned::try_from(OwnedValue)",
                "value",
                s,
                || $Owned::try_from(OwnedValue::try_from(Value::from(s)).unwrap()),
                ho,
            );
            let d = Data::new(enc_dbus_string(s), Context::new_dbus(LE, 0));
            obs(out, "deserialize(dbus s)", "deserialize", s, || d.deserialize::<$T<'_>>().map(|r| r.0), h);
            obs(
                out,
                "Owned::deserialize(dbus s)",
                "deserialize",
                s,
                || d.deserialize::<$Owned>().map(|r| r.0),
                ho,
            );
            #[cfg(feature = "gvariant")]
            {
                let g = Data::new(enc_gv_string(s), Context::new_gvariant(LE, 0));
                obs(
                    out,
                    "deserialize(gvariant s)",
                    "deserialize",
                    s,
                    || g.deserialize::<$T<'_>>().map(|r| r.0),
                    h,
                );
            }
        }
    };
}

name_routes!(routes_bus, BusName, OwnedBusName);
name_routes!(routes_unique, UniqueName, OwnedUniqueName);
name_routes!(routes_well_known, WellKnownName, OwnedWellKnownName);
name_routes!(routes_interface, InterfaceName, OwnedInterfaceName);
name_routes!(routes_member, MemberName, OwnedMemberName);
name_routes!(routes_error, ErrorName, OwnedErrorName);
name_routes!(routes_property, PropertyName, OwnedPropertyName);

fn routes_path(s: &str, out: &mut Vec<RouteObs>) {
    // SAFETY: as above.
    let st: &'static str = unsafe { std::mem::transmute::<&str, &'static str>(s) };
    let h = |t: &ObjectPath<'_>| t.as_str().to_string();
    let ho = |t: &OwnedObjectPath| t.as_str().to_string();
    obs(out, "try_from(&str)", "str", s, || ObjectPath::try_from(s), h);
    obs(out, "try_from(String)", "str", s, || ObjectPath::try_from(s.to_string()), h);
    obs(out, "try_from(Cow<str>)", "str", s, || ObjectPath::try_from(Cow::Borrowed(s)), h);
    obs(out, "try_from(&[u8])", "str", s, || ObjectPath::try_from(s.as_bytes()), h);
    obs(out, "from_static_str", "static", s, || ObjectPath::from_static_str(st), h);
    obs(out, "Owned::try_from(&str)", "str", s, || OwnedObjectPath::try_from(s), ho);
    obs(out, "Owned::try_from(String)", "str", s, || OwnedObjectPath::try_from(s.to_string()), ho);
    let d = Data::new(enc_dbus_string(s), Context::new_dbus(LE, 0));
    obs(out, "deserialize(dbus o)", "deserialize", s, || d.deserialize::<ObjectPath<'_>>().map(|r| r.0), h);
    obs(
        out,
        "Owned::deserialize(dbus o)",
        "deserialize",
        s,
        || d.deserialize::<OwnedObjectPath>().map(|r| r.0),
        ho,
    );
    let v = Data::new(enc_dbus_variant(b'o', s), Context::new_dbus(LE, 0));
    obs(
        out,
        "deserialize(dbus variant o)",
        "deserialize",
        s,
        || v.deserialize::<Value<'_>>().map(|r| r.0),
        |val| match val {
            Value::ObjectPath(p) => p.as_str().to_string(),
            other => format!("<not an object path: {other:?}>"),
        },
    );
    #[cfg(feature = "gvariant")]
    {
        let g = Data::new(enc_gv_string(s), Context::new_gvariant(LE, 0));
        obs(
            out,
            "deserialize(gvariant o)",
            "deserialize",
            s,
            || g.deserialize::<ObjectPath<'_>>().map(|r| r.0),
            h,
        );
    }
}

pub fn observe(kind: Kind, s: &str, out: &mut Vec<RouteObs>) {
    out.clear();
    match kind {
        Kind::BusName => routes_bus(s, out),
        Kind::UniqueName => routes_unique(s, out),
        Kind::WellKnownName => routes_well_known(s, out),
        Kind::InterfaceName => routes_interface(s, out),
        Kind::MemberName => routes_member(s, out),
        Kind::ErrorName => routes_error(s, out),
        Kind::PropertyName => routes_property(s, out),
        Kind::ObjectPath => routes_path(s, out),
    }
}

// ---------------------------------------------------------------------------------------------
// case evaluation
// ---------------------------------------------------------------------------------------------

#[derive(Default)]
struct Local {
    evals: u64,
    outcomes: BTreeMap<String, u64>,
    nontrivial: Vec<u64>,
    /// identity -> (count, first violation)
    viol: BTreeMap<(String, String, String, String), (u64, Option<Violation>)>,
    samples: Vec<serde_json::Value>,
}

fn eval_case(kind: Kind, s: &str, buf: &mut Vec<RouteObs>, loc: &mut Local, origin: &str) {
    let expect = kind.accepts(s);
    observe(kind, s, buf);
    loc.evals += 1;
    let mut any_accept = false;
    for o in buf.iter() {
        any_accept |= o.out.accepted();
        let (bad, clause, dir) = match &o.out {
            Out::Panicked(_) => (true, "no-panic", "panic"),
            Out::Altered(_) => (true, "accepted-value-holds-input", "altered"),
            Out::Accepted if !expect => (true, "accept-iff-grammar", "accepts-invalid"),
            Out::Rejected if expect => (true, "accept-iff-grammar", "rejects-valid"),
            _ => (false, "", ""),
        };
        if bad {
            let id = (
                clause.to_string(),
                kind.name().to_string(),
                o.route.to_string(),
                dir.to_string(),
            );
            let e = loc.viol.entry(id).or_insert((0, None));
            e.0 += 1;
            if e.1.is_none() {
                e.1 = Some(
                    Violation::new(
                        clause,
                        format!(
                            "{}: {} on {:?} -> {}; the reference grammar {} it",
                            kind.name(),
                            o.route,
                            s,
                            o.out.show(),
                            if expect { "accepts" } else { "rejects" }
                        ),
                        json!({"kind": kind.name(), "string": s}),
                    )
                    .feat("type", kind.name())
                    .feat("route", o.route)
                    .feat("route_group", o.group)
                    .feat("direction", dir),
                );
            }
        }
    }
    let class = format!(
        "{}:{}",
        if kind == Kind::ObjectPath { "path" } else { "name" },
        match (expect, any_accept) {
            (true, true) => "valid-accepted",
            (true, false) => "valid-rejected",
            (false, true) => "invalid-accepted-by-some-route",
            (false, false) => "invalid-rejected",
        }
    );
    *loc.outcomes.entry(class).or_insert(0) += 1;
    // non-trivial: the reference accepts the string for a kind with a real grammar, or it is a
    // boundary-length string (PropertyName accepts nearly everything, so only its boundary cases count).
    if (expect && kind != Kind::PropertyName) || origin == "boundary" {
        loc.nontrivial.push(hash64(&(kind.name(), s)));
        if loc.samples.len() < 2 && s.len() >= 3 && s.len() < 40 && kind != Kind::PropertyName {
            loc.samples.push(json!({"kind": kind.name(), "string": s, "reference": expect,
                "routes": buf.iter().map(|o| json!([o.route, o.out.show()])).collect::<Vec<_>>() }));
        }
    }
}

fn flush(report: &Report, loc: Local) {
    report.eval(loc.evals);
    for (k, n) in &loc.outcomes {
        report.outcome_n(k, *n);
    }
    report.nontrivial_many(loc.nontrivial);
    for (_, (n, v)) in loc.viol {
        report.add("violating_route_observations", n);
        if let Some(v) = v {
            report.violation(v);
        }
    }
    for s in loc.samples {
        if report.n_samples() < 10 {
            report.sample(s);
        }
    }
}

/// Boundary strings: for every shape, exact byte lengths 254..=257 (and a long one).
pub fn boundary_strings() -> Vec<String> {
    let mut out = vec![];
    let fill = |prefix: &str, c: &str, len: usize| -> Option<String> {
        if len < prefix.len() {
            return None;
        }
        let rest = len - prefix.len();
        if rest % c.len() != 0 {
            return None;
        }
        Some(format!("{prefix}{}", c.repeat(rest / c.len())))
    };
    for len in [254usize, 255, 256, 257, 1000] {
        // member / property shaped
        out.extend(fill("", "a", len));
        out.extend(fill("_", "0", len));
        // interface / error / well-known / bus shaped
        out.extend(fill("a.", "a", len));
        out.extend(fill("a.b-", "a", len));
        out.extend(fill("a", ".a", len));
        out.extend(fill("aa", ".a", len));
        // unique shaped
        out.extend(fill(":1.", "0", len));
        out.extend(fill(":a", ".0", len));
        out.extend(fill(":aa", ".0", len));
        // the bus driver's name, padded (must not be accepted as unique by prefix)
        out.extend(fill("org.freedesktop.DBus", "a", len));
        // object-path shaped
        out.extend(fill("/", "a", len));
        out.extend(fill("/a", "/a", len));
        out.extend(fill("/aa", "/a", len));
        // two-byte characters: 255 bytes = 127 chars + 1, 256 bytes = 128 chars
        out.extend(fill("", "é", len));
        out.extend(fill("a", "é", len));
        // right length, wrong shape
        out.extend(fill("a.", "a", len - 1).map(|s| s + "."));
        out.extend(fill("/", "a", len - 1).map(|s| s + "/"));
    }
    out.push("org.freedesktop.DBus".into());
    out.push("org.freedesktop.DBus.".into());
    out.push("org.freedesktop.DBu".into());
    out.push(":org.freedesktop.DBus".into());
    out.sort();
    out.dedup();
    out
}

pub fn main(args: &Args) -> i32 {
    if let Some(p) = &args.replay {
        return replay(p);
    }
    let report = Report::new("C10", args.tier, args.seed, "exploration");
    let max_len = args.tier.pick(6usize, 7usize);
    let k = ALPHABET.len();
    let total = enumerate::count_strings(k, max_len);
    let lib = LibDbus::open();
    if lib.is_none() && args.tier == vcommon::Tier::Thorough {
        vcommon::machinery_failure("C10: libdbus-1.so.3 cannot be loaded for the refnames audit");
    }
    let audit_fail: std::sync::Mutex<Option<String>> = std::sync::Mutex::new(None);
    let audited = std::sync::atomic::AtomicU64::new(0);
    let masked = std::sync::atomic::AtomicU64::new(0);

    const BLOCK: usize = 2048;
    let n_blocks = total.div_ceil(BLOCK);
    let run_block = |b: usize| {
        let mut loc = Local::default();
        let mut idx = vec![];
        let mut buf = vec![];
        let mut s = String::new();
        let mut n_aud = 0u64;
        let mut n_masked = 0u64;
        for i in b * BLOCK..((b + 1) * BLOCK).min(total) {
            enumerate::nth_string(k, i, &mut idx);
            s.clear();
            for j in &idx {
                s.push_str(ALPHABET[*j]);
            }
            if let Some(lib) = &lib {
                n_aud += 1;
                if let Some(msg) = audit_one(lib, &s, &mut n_masked) {
                    audit_fail.lock().unwrap().get_or_insert(msg);
                }
            }
            for kind in KINDS {
                eval_case(kind, &s, &mut buf, &mut loc, "enum");
            }
        }
        audited.fetch_add(n_aud, std::sync::atomic::Ordering::Relaxed);
        masked.fetch_add(n_masked, std::sync::atomic::Ordering::Relaxed);
        flush(&report, loc);
    };
    // the first block (all strings of length <= 3) runs first and alone, so that the witness kept
    // for each violation identity is a shortest one
    run_block(0);
    vcommon::par_for(n_blocks.saturating_sub(1), 1, |b| run_block(b + 1));

    let bs = boundary_strings();
    {
        let mut loc = Local::default();
        let mut buf = vec![];
        for s in &bs {
            if let Some(lib) = &lib {
                audited.fetch_add(1, std::sync::atomic::Ordering::Relaxed);
                let mut m = 0;
                if let Some(msg) = audit_one(lib, s, &mut m) {
                    audit_fail.lock().unwrap().get_or_insert(msg);
                }
                masked.fetch_add(m, std::sync::atomic::Ordering::Relaxed);
            }
            for kind in KINDS {
                eval_case(kind, s, &mut buf, &mut loc, "boundary");
            }
        }
        flush(&report, loc);
    }

    if let Some(msg) = audit_fail.lock().unwrap().clone() {
        vcommon::machinery_failure(&format!("C10 oracle audit: {msg}"));
    }
    report.set("strings_enumerated", json!(total));
    report.set("boundary_strings", json!(bs.len()));
    report.set("max_len", json!(max_len));
    report.set(
        "refnames_audited_against_libdbus",
        json!(audited.load(std::sync::atomic::Ordering::Relaxed)),
    );
    report.set(
        "audit_masked_libdbus_lax_unique_names",
        json!({"strings": masked.load(std::sync::atomic::Ordering::Relaxed),
               "mask": "libdbus accepts ':'-names without a '.' or with an empty first element; the specification (and the reference) do not"}),
    );
    report.set("types", json!(KINDS.iter().map(|k| k.name()).collect::<Vec<_>>()));
    report.assume("refnames is written from the D-Bus specification; it is audited against libdbus dbus_validate_{path,interface,member,error_name,bus_name} on every enumerated string (disagreement = machinery failure)");
    report.assume("PropertyName reference = 1..=255 bytes (the specification gives property names no grammar; the bound is zbus's documented one)");
    report.assume("UniqueName reference includes the literal org.freedesktop.DBus, as zbus documents");
    report.assume("the GUID part of the property is checked by the zb crate (c10guid)");
    report.assume("reference D-Bus/GVariant string encodings used for the Deserialize routes are the trivial length+bytes+NUL / bytes+NUL forms");
    if lib.is_none() {
        report.note("libdbus not loadable: refnames audit skipped in this quick run");
    }
    // The GUID part runs in the zb crate (the Guid type lives in zbus); the driver runs it first
    // and hands its part over for merging.
    match std::env::var("C10_GUID_PART").ok().and_then(|p| std::fs::read_to_string(p).ok()) {
        Some(text) => match serde_json::from_str::<serde_json::Value>(&text) {
            Ok(part) => {
                report.set("guid_part_evaluations", part["evaluations"].clone());
                report.import_part(&part);
            }
            Err(e) => vcommon::machinery_failure(&format!("C10: bad GUID part: {e}")),
        },
        None => vcommon::machinery_failure("C10: the GUID part (zb C10G) was not provided; run through ./check"),
    }
    report.finish(
        "every string of length <= max_len over {a,Z,0,_,-,.,:,/,é,space} plus 254..257/1000-byte boundary strings, x 8 validated types x every construction route; non-trivial = (type,string) pairs the reference accepts (PropertyName excluded: it accepts nearly everything) plus all boundary pairs",
        true,
    )
}

fn replay(path: &str) -> i32 {
    let v = vcommon::load_replay(path);
    if v["replay"]["kind"].as_str() == Some("Guid") {
        // handled by the driver: `./check C10 --replay` routes GUID cases to `zb C10G --replay`
        vcommon::machinery_failure("C10 replay: GUID cases are replayed by `zb C10G --replay <path>`");
    }
    let kind = v["replay"]["kind"].as_str().and_then(Kind::from_name);
    let s = v["replay"]["string"].as_str();
    let (Some(kind), Some(s)) = (kind, s) else {
        vcommon::machinery_failure("C10 replay: artefact needs replay.kind and replay.string");
    };
    let expect = kind.accepts(s);
    println!("C10 replay: type={} string={:?} ({} bytes)", kind.name(), s, s.len());
    println!("  reference grammar: {}", if expect { "accepts" } else { "rejects" });
    if let Some(lib) = LibDbus::open() {
        match audit_one(&lib, s, &mut 0) {
            None => println!("  libdbus agrees with the reference on this string"),
            Some(m) => println!("  ORACLE AUDIT DISAGREEMENT: {m}"),
        }
    }
    let mut buf = vec![];
    observe(kind, s, &mut buf);
    let mut bad = 0;
    for o in &buf {
        let ok = matches!((&o.out, expect), (Out::Accepted, true) | (Out::Rejected, false));
        if !ok {
            bad += 1;
        }
        println!("  {:32} -> {}{}", o.route, o.out.show(), if ok { "" } else { "   <-- differs from the reference" });
    }
    if bad > 0 {
        println!("C10 replay: reproduced ({bad} route(s) differ)");
        1
    } else {
        println!("C10 replay: not reproduced");
        0
    }
}
