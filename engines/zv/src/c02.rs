//! C02 — not built yet.
use vcommon::Args;

pub fn main(_args: &Args) -> i32 {
    vcommon::machinery_failure("C02: check not built yet")
}
