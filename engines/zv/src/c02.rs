//! C02 — encoding then decoding returns the original value.
//!
//! Space: C01's space (every type with ≤ N signature nodes, every value of `rv::values`, both byte
//! orders, start offsets), in D-Bus **and** GVariant format (GVariant additionally with maybe
//! types), along the encode→decode route pairs of zvx.rs:
//!   dyn→dyn, dyn→serde, serde→serde, serde→dyn, variant→variant, typed→typed
//! (typed = the static bank: tuples, `Vec`, `HashMap`/`BTreeMap`, derived structs, `serde_repr`
//! enums, `Option`). `Option<T>` in D-Bus format needs zvariant's `option-as-array` feature; those
//! cases run in the `gv-oaa` build of this binary (spawned as a child, counts merged).
//! Oracle: decoded == original (floats bitwise, maps as sets) and consumed == encoded length.

use std::collections::BTreeMap;

use serde_json::json;
use vcommon::{hex, Args, Report, Violation};

use crate::{
    rv::{self, Ty, RV},
    zvx::{self, Acc},
};

const CAP: usize = 64;

fn kind(ty: &Ty) -> &'static str {
    match ty {
        Ty::Array(_) => "array",
        Ty::Dict(..) => "dict",
        Ty::Struct(_) => "struct",
        Ty::V => "variant",
        Ty::Maybe(_) => "maybe",
        Ty::H => "fd",
        Ty::S | Ty::O | Ty::G => "string-like",
        _ => "fixed",
    }
}

/// Is the GVariant encoding of this value zero bytes long? (empty array/dict, `nothing`, a
/// one-member struct of such.)
fn gv_zero_size(v: &RV) -> bool {
    match v {
        RV::Array(_, xs) => xs.is_empty(),
        RV::Dict(_, _, xs) => xs.is_empty(),
        RV::Maybe(_, None) => true,
        RV::Struct(xs) => xs.len() == 1 && gv_zero_size(&xs[0]),
        _ => false,
    }
}

/// Does the value contain a non-empty array all of whose elements are zero bytes long in
/// GVariant? (Such an array consists of framing offsets only.)
fn has_array_of_empty(v: &RV) -> bool {
    match v {
        RV::Array(_, xs) => (!xs.is_empty() && xs.iter().all(gv_zero_size)) || xs.iter().any(has_array_of_empty),
        RV::Dict(_, _, xs) => xs.iter().any(|(k, v)| has_array_of_empty(k) || has_array_of_empty(v)),
        RV::Struct(xs) => xs.iter().any(has_array_of_empty),
        RV::V(b) => has_array_of_empty(&b.1),
        RV::Maybe(_, Some(x)) => has_array_of_empty(x),
        _ => false,
    }
}

struct Case<'a> {
    ty: &'a Ty,
    vidx: usize,
    maybe: bool,
    gv: bool,
    be: bool,
    off: usize,
}

impl Case<'_> {
    fn replay(&self, route: &str, typed: Option<&str>) -> serde_json::Value {
        json!({"sig": self.ty.sig(), "value_index": self.vidx, "maybe_types": self.maybe, "gvariant": self.gv,
               "big_endian": self.be, "offset": self.off, "route": route, "typed": typed, "cap": CAP,
               "option_as_array": cfg!(feature = "option-as-array")})
    }
    fn fmt(&self) -> &'static str {
        if self.gv {
            "gvariant"
        } else {
            "dbus"
        }
    }
}

/// Judge one encode→decode pair.
#[allow(clippy::too_many_arguments)]
fn judge(
    acc: &mut Acc,
    case: &Case<'_>,
    route: &str,
    typed: Option<&str>,
    original: &RV,
    encoded: &Result<Vec<u8>, String>,
    decoded: impl FnOnce(&[u8]) -> Result<(RV, usize), String>,
    verbose: bool,
) {
    acc.evals += 1;
    let what = format!(
        "{} {} value {} {} offset {} route {}{}",
        case.fmt(),
        original.ty().sig(),
        original.show(),
        if case.be { "BE" } else { "LE" },
        case.off,
        route,
        typed.map(|t| format!(" as {t}")).unwrap_or_default()
    );
    let v = |clause: &str, detail: String| {
        Violation::new(clause, detail, case.replay(route, typed))
            .feat("format", case.fmt())
            .feat("route", route)
            .feat("kind", kind(&original.ty()))
            .feat("array_of_zero_size_elements", has_array_of_empty(original))
    };
    let bytes = match encoded {
        Ok(b) => b,
        Err(e) => {
            if verbose {
                println!("route {route}: encode failed: {e}");
            }
            acc.outcome(&format!("{}:{route}:encode-error", case.fmt()));
            acc.violation(
                v("encode-fails", format!("{what}: the real encoder failed on a well-typed value: {e}"))
                    .feat("error", zvx::err_class(e)),
            );
            return;
        }
    };
    let dec = decoded(bytes);
    if verbose {
        println!(
            "route {route}: encoded {} ({} bytes); decoded {:?}",
            hex(bytes),
            bytes.len(),
            dec.as_ref().map(|(r, n)| (r.show(), *n))
        );
    }
    match dec {
        Err(e) => {
            acc.outcome(&format!("{}:{route}:decode-error", case.fmt()));
            acc.violation(
                v("decode-fails", format!("{what}: encoded as {} but decoding failed: {e}", hex(bytes)))
                    .feat("error", zvx::err_class(&e)),
            );
        }
        Ok((back, consumed)) => {
            let same = zvx::rv_same(&back, original);
            if (!same || consumed != bytes.len()) && std::env::var_os("ZV_TRACE").is_some() {
                eprintln!("TRACE {} {} {} -> {} [{}] consumed {}/{}", case.fmt(), route, original.ty().sig(), original.show(), back.show(), consumed, bytes.len());
            }
            if !same {
                acc.violation(v(
                    "value-differs",
                    format!("{what}: encoded as {} and decoded as {}", hex(bytes), back.show()),
                ));
            }
            if consumed != bytes.len() {
                acc.violation(v(
                    "consumed-differs",
                    format!("{what}: encoded as {} ({} bytes) but decoding reports {consumed} consumed", hex(bytes), bytes.len()),
                ));
            }
            acc.outcome(&format!(
                "{}:{route}:{}",
                case.fmt(),
                if same && consumed == bytes.len() { "identity" } else { "differs" }
            ));
        }
    }
}

struct Plan<'a> {
    formats: &'a [bool],
    endians: &'a [bool],
    offsets: &'a [usize],
    only_route: Option<&'a str>,
    only_typed: Option<&'a str>,
    /// run only bank entries whose Rust type involves `Option` (child mode)
    option_only: bool,
    verbose: bool,
}

fn run_value(
    acc: &mut Acc,
    ty: &Ty,
    vidx: usize,
    maybe: bool,
    rv: &RV,
    plan: &Plan<'_>,
    bank: &BTreeMap<String, Vec<Box<dyn zvx::TypedOps>>>,
) {
    let has_maybe = ty.contains(&|t| matches!(t, Ty::Maybe(_)));
    zvx::with_fds(|fds| {
        let fdmap = |raw: i32| zvx::fd_index(fds, raw);
        let norm = match zvx::normalize(rv, fds) {
            Ok(n) => n,
            Err(e) => vcommon::machinery_failure(&format!("C02: cannot build {}: {e}", rv.show())),
        };
        let value = rv::to_value(&norm, fds).expect("harness: to_value");
        let as_variant = RV::V(Box::new((norm.ty(), norm.clone())));
        let typed = bank.get(&ty.sig());
        for &gv in plan.formats {
            if has_maybe && !gv {
                continue; // maybe types exist only in GVariant
            }
            for &be in plan.endians {
                for &off in plan.offsets {
                    let case = Case { ty, vidx, maybe, gv, be, off };
                    let c = zvx::ctxt(gv, be, off);
                    let want = |r: &str| !plan.option_only && plan.only_route.map(|o| o == r).unwrap_or(true);
                    // encode once per encode route; the Data keeps the attached fds alive
                    let e_dyn = if want("dyn>dyn") || want("dyn>serde") { Some(zvx::enc_dyn(&value, c)) } else { None };
                    let e_serde =
                        if want("serde>serde") || want("serde>dyn") { Some(zvx::enc_serde(rv, fds, c)) } else { None };
                    let bytes_of = |e: &Option<Result<zvx::Encoded, String>>| match e {
                        Some(Ok(e)) => Ok(e.bytes().to_vec()),
                        Some(Err(e)) => Err(e.clone()),
                        None => Err("not run".into()),
                    };
                    if let Some(e) = &e_dyn {
                        let b = bytes_of(&e_dyn);
                        if want("dyn>dyn") && zvx::dyn_decodable(ty) {
                            judge(acc, &case, "dyn>dyn", None, &norm, &b, |_| zvx::dec_dyn(ty, &e.as_ref().unwrap().data, &fdmap), plan.verbose);
                        }
                        if want("dyn>serde") {
                            judge(acc, &case, "dyn>serde", None, &norm, &b, |_| zvx::dec_serde(ty, &e.as_ref().unwrap().data, &fdmap), plan.verbose);
                        }
                    }
                    if let Some(e) = &e_serde {
                        let b = bytes_of(&e_serde);
                        if want("serde>serde") {
                            judge(acc, &case, "serde>serde", None, rv, &b, |_| zvx::dec_serde(ty, &e.as_ref().unwrap().data, &fdmap), plan.verbose);
                        }
                        if want("serde>dyn") && zvx::dyn_decodable(ty) {
                            // The decode target is zvariant's Array/Structure/Value, whose Dict holds
                            // one entry for keys it considers equal (0.0 / -0.0): the expected value
                            // is that type's own view of the data (`norm`), not the generic map's.
                            judge(acc, &case, "serde>dyn", None, &norm, &b, |_| zvx::dec_dyn(ty, &e.as_ref().unwrap().data, &fdmap), plan.verbose);
                        }
                    }
                    if want("variant>variant") {
                        let e = zvx::enc_variant(&value, c);
                        let b = e.as_ref().map(|e| e.bytes().to_vec()).map_err(|e| e.clone());
                        judge(acc, &case, "variant>variant", None, &as_variant, &b, |_| zvx::dec_variant(&e.as_ref().unwrap().data, &fdmap), plan.verbose);
                    }
                    if plan.only_route.map(|o| o == "typed>typed").unwrap_or(true) {
                        for ops in typed.into_iter().flatten() {
                            if !(if gv { ops.gv_ok() } else { ops.dbus_ok() }) {
                                continue;
                            }
                            if plan.option_only && !ops.name().contains("Option") {
                                continue;
                            }
                            if plan.only_typed.map(|t| t != ops.name()).unwrap_or(false) {
                                continue;
                            }
                            if let Some(t) = ops.encode(rv, c) {
                                judge(acc, &case, "typed>typed", Some(ops.name()), &t.as_rv, &t.bytes, |b| ops.decode(b, c), plan.verbose);
                            }
                        }
                    }
                    if !plan.option_only {
                        let lead_pad = !gv && off % ty.align() != 0;
                        if ty.has_container() || lead_pad || (gv && off % 8 != 0) {
                            acc.nontrivial.insert(vcommon::hash64(&(ty.sig(), vidx, gv, be, off)));
                        }
                    } else {
                        acc.nontrivial.insert(vcommon::hash64(&("oaa", ty.sig(), vidx, gv, be, off)));
                    }
                }
            }
        }
    })
}

fn corpus_values(ty: &Ty, cap: usize) -> Vec<RV> {
    let mut capped = false;
    rv::values(ty, &rv::Domain::standard(cap), &mut capped)
}

fn replay(args: &Args, path: &str) -> i32 {
    let art = vcommon::load_replay(path);
    let r = &art["replay"];
    let (Some(sig), Some(vidx), Some(gv), Some(be), Some(off)) = (
        r["sig"].as_str(),
        r["value_index"].as_u64(),
        r["gvariant"].as_bool(),
        r["big_endian"].as_bool(),
        r["offset"].as_u64(),
    ) else {
        vcommon::machinery_failure("C02 replay: malformed artefact");
    };
    let needs_oaa = r["option_as_array"].as_bool().unwrap_or(false);
    if needs_oaa != cfg!(feature = "option-as-array") {
        // the case was produced by the other feature build
        let cfg = if needs_oaa { "gv-oaa" } else { "gv" };
        match zvx::zv_bin(cfg) {
            Some(bin) => {
                let st = std::process::Command::new(&bin)
                    .args(["C02", "--tier", args.tier.as_str(), "--replay", path])
                    .status();
                return match st {
                    Ok(s) => s.code().unwrap_or(2),
                    Err(e) => vcommon::machinery_failure(&format!("C02 replay: cannot run {bin}: {e}")),
                };
            }
            None => vcommon::machinery_failure(&format!(
                "C02 replay: this case needs the `{cfg}` build of zv (run through ./check, which provides ZV_BINS)"
            )),
        }
    }
    let ty = rv::parse_ty(sig).unwrap_or_else(|| vcommon::machinery_failure("C02 replay: bad signature"));
    let cap = r["cap"].as_u64().unwrap_or(CAP as u64) as usize;
    let vals = corpus_values(&ty, cap);
    let Some(rvv) = vals.get(vidx as usize) else {
        vcommon::machinery_failure("C02 replay: value index out of range");
    };
    println!(
        "C02 replay: {} type {sig} value {} {} offset {off}",
        if gv { "gvariant" } else { "dbus" },
        rvv.show(),
        if be { "BE" } else { "LE" }
    );
    let bank = zvx::bank_by_sig();
    let mut acc = Acc::default();
    let plan = Plan {
        formats: &[gv],
        endians: &[be],
        offsets: &[off as usize],
        only_route: r["route"].as_str(),
        only_typed: r["typed"].as_str(),
        option_only: false,
        verbose: true,
    };
    run_value(&mut acc, &ty, vidx as usize, r["maybe_types"].as_bool().unwrap_or(false), rvv, &plan, &bank);
    if acc.violations.is_empty() {
        println!("observation: no clause violated on this case");
        0
    } else {
        for v in &acc.violations {
            println!("observation: clause={} {}", v.clause, v.detail);
        }
        1
    }
}

pub fn main(args: &Args) -> i32 {
    if let Some(p) = &args.replay {
        return replay(args, p);
    }
    let child = args.extra.iter().any(|a| a == "--child");
    let n = args.tier.pick(3, 4);
    let offsets: Vec<usize> = (0..args.tier.pick(8, 16)).collect();
    let gv_available = cfg!(feature = "gvariant");
    let formats: Vec<bool> = if gv_available { vec![false, true] } else { vec![false] };
    let corpus = zvx::corpus(n, gv_available, CAP);
    let bank = zvx::bank_by_sig();
    let items = &corpus.items;
    let sink = zvx::Sink::new();
    let plan = Plan {
        formats: &formats,
        endians: &[false, true],
        offsets: &offsets,
        only_route: None,
        only_typed: None,
        option_only: child,
        verbose: false,
    };
    if child {
        // only the `Option` bank entries, which need this build's `option-as-array`
        if !cfg!(feature = "option-as-array") {
            vcommon::machinery_failure("C02 --child must be the option-as-array build");
        }
        vcommon::par_for(items.len(), 1, |i| {
            let (ty, vals) = &items[i];
            if !bank.get(&ty.sig()).map(|v| v.iter().any(|o| o.name().contains("Option"))).unwrap_or(false) {
                return;
            }
            let mut acc = Acc::default();
            for (vidx, rvv) in vals.iter().enumerate() {
                run_value(&mut acc, ty, vidx, gv_available, rvv, &plan, &bank);
            }
            sink.absorb(acc);
        });
        println!("ZVACC {}", sink.0.lock().unwrap().to_json());
        return 0;
    }

    let report = Report::new("C02", args.tier, args.seed, "exploration");
    report.set("types", json!(items.len()));
    report.set("values", json!(items.iter().map(|(_, v)| v.len()).sum::<usize>()));
    report.set("max_signature_nodes", json!(n));
    report.set("offsets", json!(offsets.len()));
    report.set("formats", json!(if gv_available { vec!["dbus", "gvariant"] } else { vec!["dbus"] }));
    if !gv_available {
        report.cap("built without the gvariant feature: D-Bus format only");
    }
    if corpus.capped_types > 0 {
        report.cap(format!(
            "value lists of {} of {} types were reduced (per-type cap {CAP}: base-choice over struct fields, first/last for variant payloads)",
            corpus.capped_types,
            items.len()
        ));
    }
    vcommon::par_for(items.len(), 1, |i| {
        let (ty, vals) = &items[i];
        let mut acc = Acc::default();
        for (vidx, rvv) in vals.iter().enumerate() {
            run_value(&mut acc, ty, vidx, gv_available, rvv, &plan, &bank);
        }
        acc.flush(&report);
    });
    // Option<T> as an array of 0/1 elements (D-Bus): needs the option-as-array build
    if cfg!(feature = "option-as-array") {
        report.note("this build has option-as-array: Option<T> bank entries ran inline as arrays");
    } else {
        match zvx::zv_bin("gv-oaa") {
            Some(bin) => {
                let out = std::process::Command::new(&bin)
                    .args(["C02", "--tier", args.tier.as_str(), "--child"])
                    .output();
                let parsed = out.ok().and_then(|o| {
                    let text = String::from_utf8_lossy(&o.stdout).to_string();
                    let line = text.lines().find_map(|l| l.strip_prefix("ZVACC "))?.to_string();
                    let j: serde_json::Value = serde_json::from_str(&line).ok()?;
                    Acc::from_json(&j)
                });
                match parsed {
                    Some(a) => {
                        report.set("option_as_array_child_evaluations", json!(a.evals));
                        a.flush(&report);
                    }
                    None => vcommon::machinery_failure(&format!("C02: the option-as-array child {bin} did not report")),
                }
            }
            None => report.cap("Option<T>-as-array cases not run: no gv-oaa build given in ZV_BINS (run through ./check)"),
        }
    }
    // deterministic samples
    zvx::with_fds(|fds| {
        for (sig, idx) in [("a{sy}", 2usize), ("(yx)", 3), ("av", 3), ("a(t)", 2), ("mas", 2), ("a{yv}", 1)] {
            let Some(ty) = rv::parse_ty(sig) else { continue };
            if !gv_available && sig.contains('m') {
                continue;
            }
            let vals = corpus_values(&ty, CAP);
            let Some(v) = vals.get(idx) else { continue };
            let Ok(norm) = zvx::normalize(v, fds) else { continue };
            let val = rv::to_value(&norm, fds).unwrap();
            let mut s = json!({"sig": sig, "value": norm.show()});
            if !sig.contains('m') {
                s["dbus_le_offset_3"] =
                    json!(zvx::enc_dyn(&val, zvx::ctxt(false, false, 3)).map(|e| hex(e.bytes())).unwrap_or_default());
            }
            if gv_available {
                s["gvariant_le_offset_3"] =
                    json!(zvx::enc_dyn(&val, zvx::ctxt(true, false, 3)).map(|e| hex(e.bytes())).unwrap_or_default());
            }
            report.sample(s);
        }
    });
    report.assume("equality is judged on the harness value tree: floats bitwise, dict entries as a multiset, `g` values modulo one pair of outer parentheses (zvariant's parsed Signature does not keep them)");
    report.assume("the original of a zvariant::Dict is the Dict after construction (keys it considers equal are merged there — a Dict semantics question, not an encoding one)");
    report.finish(
        "one evaluation = (type ≤ N nodes, value from rv::values, format, endian, start offset, encode>decode route pair); non-trivial = container type or a start offset that forces padding, counted per distinct (type, value, format, endian, offset)",
        true,
    )
}
