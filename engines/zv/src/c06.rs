//! C06 - signature strings parse exactly per the D-Bus type grammar (+ GVariant maybe).
//!
//! Space: every string of length <= 6 (quick) / <= 8 (thorough) over the 11 symbols
//! `y s v a ( ) { } h m z`, plus generated boundary strings (byte lengths 253..=257, array depth
//! 30..=34, struct depth 30..=34, mixed nestings).
//!
//! Oracle (reference grammar `refsig` below, written from the specification's "Type System"
//! section): a signature is a sequence of single complete types; dict entries only directly as
//! array elements, exactly two fields, basic-type key; structs non-empty; <= 255 bytes; <= 32
//! nested arrays and <= 32 nested structs (dict entries are not structs); `m<type>` when maybe is
//! enabled (no nesting limit is stated for maybe, none is applied).
//! For accepted strings: formatting reproduces the input up to the outer parentheses of multi-type
//! signatures, `string_len` matches, `validate`/`from_bytes`/`TryFrom` agree with `from_str`, and
//! equal signatures built differently are ==, hash equally, compare Equal and == their string.
//! How *unequal* signatures compare is not stated by the property and not checked.

use std::{
    collections::BTreeMap,
    hash::{Hash, Hasher},
    str::FromStr,
    sync::{
        atomic::{AtomicU64, Ordering::Relaxed},
        Mutex,
    },
};

use serde_json::json;
use vcommon::{enumerate, hash64, Args, Report, Tier, Violation};
use zvariant::{
    serialized::{Context, Data},
    Signature, LE,
};

use crate::c10::LibDbus;

pub const ALPHABET: [u8; 11] = *b"ysva(){}hmz";

// ---------------------------------------------------------------------------------------------
// refsig: the reference grammar
// ---------------------------------------------------------------------------------------------

#[derive(Clone, Debug, PartialEq, Eq)]
pub enum T {
    Leaf(u8),
    Array(Box<T>),
    Dict(Box<T>, Box<T>),
    Struct(Vec<T>),
    Maybe(Box<T>),
}

#[derive(Clone, Copy, Debug, PartialEq, Eq)]
pub struct Rules {
    pub maybe: bool,
    pub basic_keys: bool,
    pub max_len: bool,
    pub array_depth: bool,
    pub struct_depth: bool,
}

impl Rules {
    pub const fn strict(maybe: bool) -> Rules {
        Rules { maybe, basic_keys: true, max_len: true, array_depth: true, struct_depth: true }
    }
}

#[derive(Clone, Copy, Debug, PartialEq, Eq)]
pub enum Why {
    TooLong,
    UnknownCode,
    MissingType,
    EmptyStruct,
    Unclosed,
    StrayClose,
    DictEntryOutsideArray,
    DictEntryArity,
    DictKeyNotBasic,
    ArrayDepth,
    StructDepth,
}

pub const MAX_LEN: usize = 255;
pub const MAX_DEPTH: usize = 32;

fn is_basic_code(c: u8) -> bool {
    matches!(c, b'y' | b'b' | b'n' | b'q' | b'i' | b'u' | b'x' | b't' | b'd' | b's' | b'o' | b'g' | b'h')
}

struct P<'a> {
    b: &'a [u8],
    i: usize,
    rules: Rules,
}

impl P<'_> {
    /// One single complete type. `arr`/`st` = number of enclosing arrays / structs.
    fn one(&mut self, arr: usize, st: usize) -> Result<T, Why> {
        let Some(&c) = self.b.get(self.i) else { return Err(Why::MissingType) };
        self.i += 1;
        match c {
            c if is_basic_code(c) || c == b'v' => Ok(T::Leaf(c)),
            b'm' if self.rules.maybe => Ok(T::Maybe(Box::new(self.one(arr, st)?))),
            b'a' => {
                if self.rules.array_depth && arr + 1 > MAX_DEPTH {
                    return Err(Why::ArrayDepth);
                }
                if self.b.get(self.i) == Some(&b'{') {
                    self.i += 1;
                    let key = self.one(arr + 1, st)?;
                    if self.rules.basic_keys && !matches!(key, T::Leaf(k) if is_basic_code(k)) {
                        return Err(Why::DictKeyNotBasic);
                    }
                    if self.b.get(self.i) == Some(&b'}') {
                        return Err(Why::DictEntryArity);
                    }
                    let val = self.one(arr + 1, st)?;
                    match self.b.get(self.i) {
                        Some(b'}') => {
                            self.i += 1;
                            Ok(T::Dict(Box::new(key), Box::new(val)))
                        }
                        None => Err(Why::Unclosed),
                        Some(_) => Err(Why::DictEntryArity),
                    }
                } else {
                    Ok(T::Array(Box::new(self.one(arr + 1, st)?)))
                }
            }
            b'(' => {
                if self.rules.struct_depth && st + 1 > MAX_DEPTH {
                    return Err(Why::StructDepth);
                }
                let mut fields = vec![];
                loop {
                    match self.b.get(self.i) {
                        None => return Err(Why::Unclosed),
                        Some(b')') => {
                            self.i += 1;
                            break;
                        }
                        Some(_) => fields.push(self.one(arr, st + 1)?),
                    }
                }
                if fields.is_empty() {
                    return Err(Why::EmptyStruct);
                }
                Ok(T::Struct(fields))
            }
            b'{' => Err(Why::DictEntryOutsideArray),
            b')' | b'}' => Err(Why::StrayClose),
            _ => Err(Why::UnknownCode),
        }
    }
}

/// The reference recognizer: the list of single complete types, or why not.
pub fn refsig(s: &[u8], rules: Rules) -> Result<Vec<T>, Why> {
    if rules.max_len && s.len() > MAX_LEN {
        return Err(Why::TooLong);
    }
    let mut p = P { b: s, i: 0, rules };
    let mut out = vec![];
    while p.i < s.len() {
        out.push(p.one(0, 0)?);
    }
    Ok(out)
}

pub fn write_t(t: &T, out: &mut String) {
    match t {
        T::Leaf(c) => out.push(*c as char),
        T::Array(e) => {
            out.push('a');
            write_t(e, out)
        }
        T::Maybe(e) => {
            out.push('m');
            write_t(e, out)
        }
        T::Dict(k, v) => {
            out.push_str("a{");
            write_t(k, out);
            write_t(v, out);
            out.push('}')
        }
        T::Struct(fs) => {
            out.push('(');
            fs.iter().for_each(|f| write_t(f, out));
            out.push(')')
        }
    }
}

/// Which single rules (or combination) must be dropped for the reference to accept `s`.
pub fn needed_relaxation(s: &[u8], maybe: bool) -> String {
    let names = ["dict-key", "length", "array-depth", "struct-depth"];
    let mut masks: Vec<u32> = (1..16).collect();
    masks.sort_by_key(|m| (m.count_ones(), *m));
    for m in masks {
        let r = Rules {
            maybe,
            basic_keys: m & 1 == 0,
            max_len: m & 2 == 0,
            array_depth: m & 4 == 0,
            struct_depth: m & 8 == 0,
        };
        if refsig(s, r).is_ok() {
            return (0..4).filter(|i| m & (1 << i) != 0).map(|i| names[i]).collect::<Vec<_>>().join("+");
        }
    }
    "not-a-type-sequence".into()
}

// ---------------------------------------------------------------------------------------------
// building zvariant signatures from the reference AST, three ways
// ---------------------------------------------------------------------------------------------

#[derive(Clone, Copy, PartialEq, Debug)]
enum Mode {
    Dynamic,
    Static,
    /// static at even depth, dynamic at odd depth
    Mixed,
}

/// Keeps the targets of the `&'static` references alive while the built signature is in use.
#[derive(Default)]
struct Arena {
    sigs: Vec<Box<Signature>>,
    slices: Vec<Box<[&'static Signature]>>,
}

impl Arena {
    fn pin(&mut self, s: Signature) -> &'static Signature {
        let b = Box::new(s);
        // SAFETY: the box's heap allocation is stable and kept in `self.sigs`; every signature built
        // with this arena is dropped before the arena (see `with_built`).
        let r: &'static Signature = unsafe { &*(b.as_ref() as *const Signature) };
        self.sigs.push(b);
        r
    }
    fn pin_slice(&mut self, v: Vec<&'static Signature>) -> &'static [&'static Signature] {
        let b: Box<[&'static Signature]> = v.into_boxed_slice();
        // SAFETY: as above.
        let r: &'static [&'static Signature] = unsafe { &*(b.as_ref() as *const [&'static Signature]) };
        self.slices.push(b);
        r
    }
}

fn leaf_sig(c: u8) -> Signature {
    match c {
        b'y' => Signature::U8,
        b'b' => Signature::Bool,
        b'n' => Signature::I16,
        b'q' => Signature::U16,
        b'i' => Signature::I32,
        b'u' => Signature::U32,
        b'x' => Signature::I64,
        b't' => Signature::U64,
        b'd' => Signature::F64,
        b's' => Signature::Str,
        b'o' => Signature::ObjectPath,
        b'g' => Signature::Signature,
        b'v' => Signature::Variant,
        b'h' => Signature::Fd,
        _ => unreachable!("not a leaf code"),
    }
}

fn build(t: &T, mode: Mode, depth: usize, arena: &mut Arena) -> Signature {
    let stat = match mode {
        Mode::Dynamic => false,
        Mode::Static => true,
        Mode::Mixed => depth % 2 == 0,
    };
    match t {
        T::Leaf(c) => leaf_sig(*c),
        T::Array(e) => {
            let c = build(e, mode, depth + 1, arena);
            if stat {
                Signature::static_array(arena.pin(c))
            } else {
                Signature::array(c)
            }
        }
        #[cfg(feature = "gvariant")]
        T::Maybe(e) => {
            let c = build(e, mode, depth + 1, arena);
            if stat {
                Signature::static_maybe(arena.pin(c))
            } else {
                Signature::maybe(c)
            }
        }
        // without the gvariant feature the reference never produces a maybe node (Rules.maybe = false)
        #[cfg(not(feature = "gvariant"))]
        T::Maybe(_) => unreachable!("maybe needs the gvariant feature"),
        T::Dict(k, v) => {
            let k = build(k, mode, depth + 1, arena);
            let v = build(v, mode, depth + 1, arena);
            if stat {
                Signature::static_dict(arena.pin(k), arena.pin(v))
            } else {
                Signature::dict(k, v)
            }
        }
        T::Struct(fs) => build_struct(fs, mode, depth, arena),
    }
}

fn build_struct(fs: &[T], mode: Mode, depth: usize, arena: &mut Arena) -> Signature {
    let stat = match mode {
        Mode::Dynamic => false,
        Mode::Static => true,
        Mode::Mixed => depth % 2 == 0,
    };
    let fields: Vec<Signature> = fs.iter().map(|f| build(f, mode, depth + 1, arena)).collect();
    if stat {
        let refs: Vec<&'static Signature> = fields.into_iter().map(|f| arena.pin(f)).collect();
        Signature::static_structure(arena.pin_slice(refs))
    } else {
        Signature::structure(fields)
    }
}

fn build_top(ts: &[T], mode: Mode, arena: &mut Arena) -> Signature {
    match ts.len() {
        0 => Signature::Unit,
        1 => build(&ts[0], mode, 0, arena),
        _ => build_struct(ts, mode, 0, arena),
    }
}

fn std_hash(s: &Signature) -> u64 {
    let mut h = std::collections::hash_map::DefaultHasher::new();
    s.hash(&mut h);
    h.finish()
}

// ---------------------------------------------------------------------------------------------
// observation of the subject
// ---------------------------------------------------------------------------------------------

#[derive(Debug, Clone, PartialEq)]
pub struct Acceptance {
    pub from_str: Result<bool, String>,
    pub others: Vec<(&'static str, Result<bool, String>)>,
}

fn accept_routes(s: &str, with_deser: bool) -> Acceptance {
    let from_str = vcommon::catch(|| Signature::from_str(s).is_ok());
    let mut others = vec![
        ("validate", vcommon::catch(|| zvariant::signature::validate(s.as_bytes()).is_ok())),
        ("from_bytes", vcommon::catch(|| Signature::from_bytes(s.as_bytes()).is_ok())),
        ("try_from(&str)", vcommon::catch(|| Signature::try_from(s).is_ok())),
        ("try_from(&[u8])", vcommon::catch(|| Signature::try_from(s.as_bytes()).is_ok())),
    ];
    if with_deser && s.len() <= 255 {
        // reference D-Bus encoding of a `g`: u8 length, bytes, NUL
        let mut b = vec![s.len() as u8];
        b.extend_from_slice(s.as_bytes());
        b.push(0);
        let d = Data::new(b, Context::new_dbus(LE, 0));
        others.push(("deserialize(dbus g)", vcommon::catch(|| d.deserialize::<Signature>().is_ok())));
    }
    Acceptance { from_str, others }
}

/// One failed law on an accepted string.
struct Fail {
    clause: &'static str,
    what: String,
    detail: String,
}

/// All laws for a string both sides accept. `ts` is the reference AST.
fn check_accepted(s: &str, ts: &[T], fails: &mut Vec<Fail>) {
    let r = vcommon::catch(|| {
        let mut fails = vec![];
        let mut fail = |clause: &'static str, what: &str, detail: String| {
            fails.push(Fail { clause, what: what.to_string(), detail })
        };
        let parsed = Signature::from_str(s).expect("accepted");
        let multi = ts.len() >= 2;
        let with_parens = if multi { format!("({s})") } else { s.to_string() };

        // formatting
        let ts_ = parsed.to_string();
        if ts_ != with_parens {
            fail("format-reproduces-input", "to_string", format!("to_string() = {ts_:?}, expected {with_parens:?}"));
        }
        let disp = format!("{parsed}");
        if disp != with_parens {
            fail("format-reproduces-input", "Display", format!("Display = {disp:?}, expected {with_parens:?}"));
        }
        // documented: no_parens strips the parentheses of a structure signature (only)
        let expect_np = match ts {
            [T::Struct(_)] => s[1..s.len() - 1].to_string(),
            _ => s.to_string(),
        };
        let np = parsed.to_string_no_parens();
        if np != expect_np {
            fail("format-reproduces-input", "to_string_no_parens", format!("to_string_no_parens() = {np:?}, expected {expect_np:?}"));
        }
        let mut w = String::new();
        let _ = parsed.write_as_string_no_parens(&mut w);
        if w != expect_np {
            fail("format-reproduces-input", "write_as_string_no_parens", format!("wrote {w:?}, expected {expect_np:?}"));
        }
        // string_len
        if parsed.string_len() != with_parens.len() {
            fail("string-len-matches", "string_len", format!("string_len() = {}, string form {with_parens:?} has {}", parsed.string_len(), with_parens.len()));
        }

        // equal signatures in different representations
        let mut arena = Arena::default();
        {
            let mut reps: Vec<(&'static str, Signature)> = vec![("parsed", parsed.clone())];
            if multi && s.len() + 2 <= MAX_LEN {
                match Signature::from_str(&with_parens) {
                    Ok(p) => reps.push(("parsed-with-outer-parens", p)),
                    Err(_) => fail("accept-iff-grammar", "outer-parens", format!("{with_parens:?} rejected although {s:?} is accepted")),
                }
            }
            if let Ok(p) = Signature::from_bytes(s.as_bytes()) {
                reps.push(("from_bytes", p));
            }
            reps.push(("built-dynamic", build_top(ts, Mode::Dynamic, &mut arena)));
            reps.push(("built-static", build_top(ts, Mode::Static, &mut arena)));
            reps.push(("built-mixed", build_top(ts, Mode::Mixed, &mut arena)));
            reps.push(("From<&Signature>", Signature::from(&parsed)));
            for (i, (na, a)) in reps.iter().enumerate() {
                if a.to_string() != with_parens {
                    fail("format-reproduces-input", &format!("to_string of {na}"), format!("{na}: to_string() = {:?}, expected {with_parens:?}", a.to_string()));
                }
                if a.string_len() != with_parens.len() {
                    fail("string-len-matches", &format!("string_len of {na}"), format!("{na}: string_len() = {}, expected {}", a.string_len(), with_parens.len()));
                }
                // == their string form (&str and str); a multi-type signature is documented to
                // equal both the parenthesised and the bare form
                if !(*a == with_parens.as_str()) || !(*a == *with_parens.as_str()) {
                    fail("equal-to-string-form", &format!("{na} == str"), format!("{na} != {with_parens:?}"));
                }
                if multi && !(*a == s) {
                    fail("equal-to-string-form", &format!("{na} == bare str"), format!("{na} != {s:?} (form without the outer parentheses)"));
                }
                for (nb, b) in reps.iter().skip(i) {
                    let pair = format!("{na} vs {nb}");
                    if !(a == b) || !(b == a) {
                        fail("equal-representations-eq", &pair, format!("{pair}: not =="));
                    }
                    if std_hash(a) != std_hash(b) {
                        fail("equal-representations-hash", &pair, format!("{pair}: hashes differ"));
                    }
                    if a.cmp(b) != std::cmp::Ordering::Equal || b.cmp(a) != std::cmp::Ordering::Equal || a.partial_cmp(b) != Some(std::cmp::Ordering::Equal) {
                        fail("equal-representations-cmp", &pair, format!("{pair}: cmp = {:?}", a.cmp(b)));
                    }
                }
            }
            drop(reps);
        }
        drop(arena);
        fails
    });
    match r {
        Ok(f) => fails.extend(f),
        Err(m) => fails.push(Fail { clause: "no-panic", what: "laws".into(), detail: format!("panicked: {m} at {}", vcommon::last_panic_location()) }),
    }
}

// ---------------------------------------------------------------------------------------------
// cases
// ---------------------------------------------------------------------------------------------

#[derive(Default)]
struct Local {
    evals: u64,
    outcomes: BTreeMap<&'static str, u64>,
    nontrivial: Vec<u64>,
    viol: BTreeMap<(String, String), (u64, Option<Violation>)>,
    samples: Vec<serde_json::Value>,
    audited: u64,
}

impl Local {
    fn violation(&mut self, v: Violation) {
        let id = (v.clause.clone(), format!("{:?}", v.features));
        let e = self.viol.entry(id).or_insert((0, None));
        e.0 += 1;
        if e.1.is_none() {
            e.1 = Some(v);
        }
    }
}

struct Shared<'a> {
    lib: Option<&'a LibDbus>,
    audit_fail: &'a Mutex<Option<String>>,
    maybe: bool,
}

fn eval_case(s: &str, origin: &'static str, audit: bool, with_deser: bool, sh: &Shared<'_>, loc: &mut Local) {
    loc.evals += 1;
    let reference = refsig(s.as_bytes(), Rules::strict(sh.maybe));
    if audit {
        if let Some(lib) = sh.lib {
            loc.audited += 1;
            let plain = refsig(s.as_bytes(), Rules::strict(false)).is_ok();
            let l = lib.call(lib.signature_validate, s);
            if plain != l {
                sh.audit_fail.lock().unwrap().get_or_insert(format!(
                    "refsig (without maybe) on {s:?} = {plain} but dbus_signature_validate says {l}"
                ));
            }
        }
    }
    let acc = accept_routes(s, with_deser);
    let replay = json!({"signature": s});
    let subject = match &acc.from_str {
        Ok(b) => *b,
        Err(m) => {
            loc.violation(
                Violation::new("no-panic", format!("from_str({s:?}) panicked: {m}"), replay.clone()).feat("route", "from_str"),
            );
            false
        }
    };
    for (route, r) in &acc.others {
        match r {
            Ok(b) if *b == subject => {}
            Ok(b) => loc.violation(
                Violation::new(
                    "routes-agree",
                    format!("{route}({s:?}) {} but from_str {}", if *b { "accepts" } else { "rejects" }, if subject { "accepts" } else { "rejects" }),
                    replay.clone(),
                )
                .feat("route", route),
            ),
            Err(m) => loc.violation(
                Violation::new("no-panic", format!("{route}({s:?}) panicked: {m}"), replay.clone()).feat("route", route),
            ),
        }
    }
    let class = match (&reference, subject) {
        (Ok(_), true) => "valid-accepted",
        (Ok(_), false) => "valid-rejected",
        (Err(_), true) => "invalid-accepted",
        (Err(_), false) => "invalid-rejected",
    };
    *loc.outcomes.entry(class).or_insert(0) += 1;
    match (&reference, subject) {
        (Ok(ts), true) => {
            let mut fails = vec![];
            check_accepted(s, ts, &mut fails);
            for f in fails {
                loc.violation(
                    Violation::new(f.clause, format!("{s:?}: {}", f.detail), replay.clone())
                        .feat("what", f.what)
                        .feat("uses_maybe", s.contains('m')),
                );
            }
        }
        (Ok(_), false) => loc.violation(
            Violation::new("accept-iff-grammar", format!("{s:?} is a valid signature but from_str rejects it"), replay.clone())
                .feat("direction", "rejects-valid")
                .feat("uses_maybe", s.contains('m')),
        ),
        (Err(why), true) => {
            let relax = needed_relaxation(s.as_bytes(), sh.maybe);
            loc.violation(
                Violation::new(
                    "accept-iff-grammar",
                    format!("{s_short:?} ({} bytes) is not a valid signature ({why:?}) but from_str accepts it", s.len(), s_short = shorten(s)),
                    replay.clone(),
                )
                .feat("direction", "accepts-invalid")
                .feat("needs_dict_key_rule_dropped", relax.contains("dict-key"))
                .feat("needs_length_rule_dropped", relax.contains("length"))
                .feat("needs_array_depth_rule_dropped", relax.contains("array-depth"))
                .feat("needs_struct_depth_rule_dropped", relax.contains("struct-depth"))
                .feat("rules_not_enforced", relax),
            );
        }
        (Err(_), false) => {}
    }
    // non-trivial: the reference or the subject accepts the string, or it is a boundary string
    if reference.is_ok() || subject || origin == "boundary" {
        loc.nontrivial.push(hash64(s));
        if loc.samples.len() < 1 && s.len() >= 4 {
            loc.samples.push(json!({"signature": shorten(s), "bytes": s.len(), "reference": reference.is_ok(), "from_str": subject, "origin": origin}));
        }
    }
}

fn shorten(s: &str) -> String {
    if s.len() <= 60 {
        s.to_string()
    } else {
        format!("{}...{} ", &s[..28], &s[s.len() - 28..])
    }
}

fn flush(report: &Report, loc: Local, audited: &AtomicU64) {
    report.eval(loc.evals);
    for (k, n) in &loc.outcomes {
        report.outcome_n(k, *n);
    }
    report.nontrivial_many(loc.nontrivial);
    for (_, (n, v)) in loc.viol {
        report.add("violating_observations", n);
        if let Some(v) = v {
            report.violation(v);
        }
    }
    for s in loc.samples {
        if report.n_samples() < 12 {
            report.sample(s);
        }
    }
    audited.fetch_add(loc.audited, Relaxed);
}

/// (string, audited against libdbus?)
pub fn boundary_strings() -> Vec<(String, bool)> {
    let mut out: Vec<(String, bool)> = vec![];
    let rep = |s: &str, n: usize| s.repeat(n);
    // byte-length family
    for len in 253..=257usize {
        out.push((rep("y", len), true));
        out.push((format!("{}{}", rep("ay", len / 2), rep("y", len % 2)), true));
        out.push((format!("({})", rep("s", len - 2)), true));
        out.push((format!("a{{s{}}}", format_args!("({})", rep("v", len - 6))), true));
        out.push((format!("{}{}", rep("a{sv}", len / 5), rep("h", len % 5)), true));
        out.push((format!("m{}", rep("y", len - 1)), true));
        // right length, not a type sequence
        out.push((format!("{}a", rep("y", len - 1)), true));
        out.push((format!("({}", rep("y", len - 1)), true));
    }
    // nesting-depth families
    for d in 30..=34usize {
        out.push((format!("{}y", rep("a", d)), true));
        out.push((format!("{}{{sv}}", rep("a", d)), true)); // d arrays, innermost a dict
        out.push((format!("{}(y)", rep("a", d)), true));
        out.push((rep("a", d), true)); // missing element type
        out.push((format!("{}y{}", rep("(", d), rep(")", d)), true));
        out.push((format!("{}y{}", rep("(y", d), rep(")", d)), true));
        out.push((format!("{}{}", rep("(", d), rep(")", d)), true)); // empty innermost struct
        out.push((format!("y{}y{}y", rep("(", d), rep(")", d)), true));
        // interleaved: array depth d and struct depth d
        out.push((format!("{}y{}", rep("a(", d), rep(")", d)), true));
        // nested dicts: array depth d, no structs (libdbus counts dict entries separately, <= 32)
        out.push((format!("{}y{}", rep("a{s", d), rep("}", d)), true));
        // maybe nesting: no limit stated
        out.push((format!("{}y", rep("m", d)), true));
        out.push((format!("{}y", rep("ma", d)), true));
    }
    for a in 31..=33usize {
        for s in 31..=33usize {
            out.push((format!("{}{}y{}", rep("a", a), rep("(", s), rep(")", s)), true));
            out.push((format!("{}{}y{}", rep("(", s), rep("a", a), rep(")", s)), true));
        }
    }
    // a dict entry is not a struct: 32 structs inside a dict entry are allowed
    out.push((format!("a{{s{}y{}}}", rep("(", 32), rep(")", 32)), true));
    out.push((format!("a{{s{}y{}}}", rep("(", 33), rep(")", 33)), true));
    // NOT audited: libdbus resets its array counter after a basic type, so array nestings that go
    // through dict entries / structs with a leading basic member are not counted faithfully by it.
    for d in 31..=34usize {
        let (h1, h2) = (d / 2, d - d / 2);
        out.push((format!("{}{}y{}{}", rep("a{y", h1), rep("a(y", h2), rep(")", h2), rep("}", h1)), false));
        out.push((format!("{}y{}", rep("a(y", d), rep(")", d)), false));
    }
    // dict-key family at depth
    out.push(("a{vs}".into(), true));
    out.push(("a{ays}".into(), true));
    out.push(("a{(s)s}".into(), true));
    out.push(("a{a{ss}s}".into(), true));
    out.push(("a{mss}".into(), true));
    // the other type codes (not in the enumeration alphabet)
    for c in "bnqiuxtdog".chars() {
        out.push((c.to_string(), true));
        out.push((format!("a{c}"), true));
        out.push((format!("a{{{c}v}}"), true));
        out.push((format!("({c}{c})"), true));
        out.push((format!("{c}{c}"), true));
    }
    for c in "efjklprwzABIN*?@&^r ".chars() {
        out.push((c.to_string(), c != ' '));
    }
    out.sort_by(|a, b| (a.0.len(), &a.0).cmp(&(b.0.len(), &b.0)));
    out.dedup();
    out
}

pub fn main(args: &Args) -> i32 {
    if let Some(p) = &args.replay {
        return replay(p);
    }
    let report = Report::new("C06", args.tier, args.seed, "exploration");
    let maybe = cfg!(feature = "gvariant");
    let max_len = args.tier.pick(6usize, 8usize);
    let k = ALPHABET.len();
    let total = enumerate::count_strings(k, max_len);
    let lib = LibDbus::open();
    if lib.is_none() && args.tier == Tier::Thorough {
        vcommon::machinery_failure("C06: libdbus-1.so.3 cannot be loaded for the refsig audit");
    }
    let audit_fail = Mutex::new(None);
    let audited = AtomicU64::new(0);
    let sh = Shared { lib: lib.as_ref(), audit_fail: &audit_fail, maybe };
    // the Deserialize route is exercised on every string up to length 6 and on all boundary strings
    let deser_len = 6usize;

    const BLOCK: usize = 4096;
    let n_blocks = total.div_ceil(BLOCK);
    let run_block = |b: usize| {
        let mut loc = Local::default();
        let mut idx = vec![];
        let mut s = String::new();
        for i in b * BLOCK..((b + 1) * BLOCK).min(total) {
            enumerate::nth_string(k, i, &mut idx);
            s.clear();
            s.extend(idx.iter().map(|j| ALPHABET[*j] as char));
            eval_case(&s, "enum", true, s.len() <= deser_len, &sh, &mut loc);
        }
        flush(&report, loc, &audited);
    };
    // shortest strings first and alone: the witness kept per violation identity is a shortest one
    run_block(0);
    vcommon::par_for(n_blocks.saturating_sub(1), 1, |b| run_block(b + 1));

    let bs = boundary_strings();
    let mut n_unaudited = 0;
    {
        let mut loc = Local::default();
        for (s, audit) in &bs {
            if !audit {
                n_unaudited += 1;
            }
            eval_case(s, "boundary", *audit, true, &sh, &mut loc);
        }
        flush(&report, loc, &audited);
    }
    if let Some(msg) = audit_fail.lock().unwrap().clone() {
        vcommon::machinery_failure(&format!("C06 oracle audit: {msg}"));
    }

    // Reading note (not part of the property): comparing a dict signature with a &str whose key is a
    // multi-byte character slices inside the character.
    let probe = vcommon::catch(|| Signature::from_str("a{sv}").map(|s| s == "a{é}").unwrap_or(false));
    if let Err(m) = probe {
        report.note(format!("note (outside the property): Signature::from_str(\"a{{sv}}\") == \"a{{é}}\" panics: {m}"));
    }
    report.note("note (outside the property): Ord for Signature returns Equal for signatures of different variants (e.g. \"y\" vs \"s\"); the property only constrains equal signatures, so this is not checked here (C08 observes it through Value::Signature)");

    report.set("strings_enumerated", json!(total));
    report.set("max_len", json!(max_len));
    report.set("boundary_strings", json!(bs.len()));
    report.set("maybe_enabled", json!(maybe));
    report.set("refsig_audited_against_libdbus", json!(audited.load(Relaxed)));
    report.set(
        "audit_not_applied",
        json!({"strings": n_unaudited, "why": "libdbus resets its array-depth counter after a basic type code, so it does not count array nestings that pass through dict entries/structs with a leading basic member; those boundary strings are checked against the reference only"}),
    );
    report.assume("refsig is written from the D-Bus specification's type-system section; without `m` it is audited against libdbus dbus_signature_validate on every enumerated string and the audited boundary strings (disagreement = machinery failure)");
    report.assume("a dict entry does not count towards the 32 nested structs (specification: 32 array type codes and 32 open parentheses)");
    report.assume("no nesting limit applies to the GVariant maybe extension (none is documented)");
    report.assume("Signature::to_string_no_parens strips exactly the parentheses of a structure signature, as documented");
    if lib.is_none() {
        report.note("libdbus not loadable: refsig audit skipped in this quick run");
    }
    report.finish(
        "every string of length <= max_len over {y,s,v,a,(,),{,},h,m,z} plus boundary strings (lengths 253..257, array/struct depth 30..34, mixed); non-trivial = strings accepted by the reference or by from_str, plus all boundary strings",
        true,
    )
}

fn replay(path: &str) -> i32 {
    let v = vcommon::load_replay(path);
    let Some(s) = v["replay"]["signature"].as_str() else {
        vcommon::machinery_failure("C06 replay: artefact needs replay.signature");
    };
    let maybe = cfg!(feature = "gvariant");
    let reference = refsig(s.as_bytes(), Rules::strict(maybe));
    println!("C06 replay: signature {:?} ({} bytes)", shorten(s), s.len());
    match &reference {
        Ok(ts) => println!("  reference grammar: accepts ({} complete type(s))", ts.len()),
        Err(w) => println!("  reference grammar: rejects ({w:?}); rule that would have to be dropped: {}", needed_relaxation(s.as_bytes(), maybe)),
    }
    if let Some(lib) = LibDbus::open() {
        println!(
            "  libdbus dbus_signature_validate: {}  (reference without maybe: {})",
            lib.call(lib.signature_validate, s),
            refsig(s.as_bytes(), Rules::strict(false)).is_ok()
        );
    }
    let acc = accept_routes(s, true);
    println!("  from_str: {:?}", acc.from_str);
    for (r, o) in &acc.others {
        println!("  {r}: {o:?}");
    }
    let subject = acc.from_str.clone().unwrap_or(false);
    let mut bad = acc.from_str.is_err() || acc.others.iter().any(|(_, o)| *o != Ok(subject));
    if reference.is_ok() != subject {
        println!("  => acceptance differs from the reference");
        bad = true;
    }
    if let (Ok(ts), true) = (&reference, subject) {
        let mut fails = vec![];
        check_accepted(s, ts, &mut fails);
        for f in &fails {
            println!("  law failed: {} [{}] {}", f.clause, f.what, f.detail);
        }
        bad |= !fails.is_empty();
        if fails.is_empty() {
            println!("  all formatting/equality laws hold");
        }
    }
    if bad {
        println!("C06 replay: reproduced");
        1
    } else {
        println!("C06 replay: not reproduced");
        0
    }
}
