//! Shared helpers for C01/C02/C03: encode and decode harness values (`rv::RV`) through the *real*
//! zvariant API along several independent routes, a bank of statically typed Rust shapes, a
//! cheap per-work-unit accumulator (so that millions of cases do not fight over the Report's
//! mutexes) and the common corpus/alphabet definitions.
//!
//! Routes (encode and decode):
//! * `dyn`     – bare value through zvariant's dynamic types at top level: Rust primitives, `Str`,
//!               `ObjectPath`, `Signature`, `Fd`, `Array`, `Dict`, `Structure`, `Maybe`, and `Value`
//!               for type `v` (`to_bytes` / `Data::deserialize*`).
//! * `variant` – the value wrapped in a `zvariant::Value`, i.e. a D-Bus VARIANT (signature `v`).
//! * `serde`   – a generic serde `Serialize` / `DeserializeSeed` written here that drives the
//!               serializer/deserializer exactly like derived code does (`serialize_seq`,
//!               `serialize_tuple`, `serialize_map`, `deserialize_seq`, ...), leaf values through the
//!               real leaf types. Works for every type of the space, including bare dicts.
//! * `typed`   – statically typed Rust values from the bank below (tuples, `Vec`, `HashMap`,
//!               `BTreeMap`, derived structs, `serde_repr` enums, `Option`).

use std::{
    collections::{BTreeMap, BTreeSet, HashMap},
    hash::BuildHasherDefault,
    marker::PhantomData,
    os::fd::{AsFd, AsRawFd},
    sync::Mutex,
};

use serde::{
    de::{DeserializeSeed, MapAccess, SeqAccess, Visitor},
    ser::{SerializeMap, SerializeSeq, SerializeTuple},
    Deserialize, Serialize,
};
use serde_json::{json, Value as J};
use vcommon::{catch, Report, Violation};
use zvariant::{
    serialized::{Context, Data},
    Array, DynamicType, Fd, ObjectPath, OwnedObjectPath, OwnedValue, Signature, Structure, Type,
    Value, BE, LE,
};

use crate::rv::{self, FdTable, Ty, RV};

// ------------------------------------------------------------------------------------------
// contexts, fds
// ------------------------------------------------------------------------------------------

pub fn ctxt(gv: bool, be: bool, pos: usize) -> Context {
    let e = if be { BE } else { LE };
    if gv {
        #[cfg(feature = "gvariant")]
        {
            return Context::new_gvariant(e, pos);
        }
        #[cfg(not(feature = "gvariant"))]
        vcommon::machinery_failure("gvariant context requested in a build without the feature");
    }
    Context::new_dbus(e, pos)
}

pub const N_FDS: usize = 2;

thread_local! {
    static FDS: FdTable = FdTable::new(N_FDS);
}

/// The calling thread's table of distinct memfds (payload of `h` values).
pub fn with_fds<R>(f: impl FnOnce(&FdTable) -> R) -> R {
    FDS.with(|t| f(t))
}

pub fn inode_of_raw(raw: i32) -> u64 {
    let mut st: libc::stat = unsafe { std::mem::zeroed() };
    if unsafe { libc::fstat(raw, &mut st) } != 0 {
        return u64::MAX;
    }
    st.st_ino as u64
}

/// Map a raw fd to the index of the table entry that refers to the same file (u32::MAX if none).
pub fn fd_index(table: &FdTable, raw: i32) -> u32 {
    for (i, f) in table.fds.iter().enumerate() {
        if f.as_raw_fd() == raw {
            return i as u32;
        }
    }
    let ino = inode_of_raw(raw);
    for (i, f) in table.fds.iter().enumerate() {
        if inode_of_raw(f.as_raw_fd()) == ino {
            return i as u32;
        }
    }
    u32::MAX
}

pub fn err_kind(e: &zvariant::Error) -> String {
    let d = format!("{e:?}");
    d.split(|c: char| !c.is_ascii_alphanumeric())
        .next()
        .unwrap_or("")
        .to_string()
}

fn flat<T>(r: Result<Result<T, zvariant::Error>, String>) -> Result<T, String> {
    match r {
        Ok(Ok(v)) => Ok(v),
        Ok(Err(e)) => Err(format!("{}: {e}", err_kind(&e))),
        Err(p) => Err(format!("PANIC at {}: {p}", vcommon::last_panic_location())),
    }
}

pub fn is_panic(e: &str) -> bool {
    e.starts_with("PANIC")
}

/// First word of an error string produced by this module (error variant name or `PANIC`).
pub fn err_class(e: &str) -> String {
    e.split(|c: char| !c.is_ascii_alphanumeric())
        .next()
        .unwrap_or("")
        .to_string()
}

// ------------------------------------------------------------------------------------------
// encode
// ------------------------------------------------------------------------------------------

pub struct Encoded {
    pub data: Data<'static, 'static>,
}

impl Encoded {
    pub fn bytes(&self) -> &[u8] {
        self.data.bytes()
    }
    /// Inodes of the attached fds, in order.
    pub fn fd_inodes(&self) -> Vec<u64> {
        self.data.fds().iter().map(|f| inode_of_raw(f.as_raw_fd())).collect()
    }
}

/// Wrapper giving any serializable thing an explicit signature (for `serialized_size`, which needs
/// `DynamicType`, on types that do not implement it themselves: `Dict`, `Maybe`, `RvSer`).
pub struct WithSig<'a, T: ?Sized>(pub &'a T, pub Signature);

impl<T: ?Sized + Serialize> Serialize for WithSig<'_, T> {
    fn serialize<S: serde::Serializer>(&self, s: S) -> Result<S::Ok, S::Error> {
        self.0.serialize(s)
    }
}
impl<T: ?Sized> DynamicType for WithSig<'_, T> {
    fn signature(&self) -> Signature {
        self.1.clone()
    }
}

macro_rules! on_bare {
    ($v:expr, $x:ident => $direct:expr, $s:ident, $y:ident => $withsig:expr) => {
        match $v {
            Value::U8($x) => $direct,
            Value::Bool($x) => $direct,
            Value::I16($x) => $direct,
            Value::U16($x) => $direct,
            Value::I32($x) => $direct,
            Value::U32($x) => $direct,
            Value::I64($x) => $direct,
            Value::U64($x) => $direct,
            Value::F64($x) => $direct,
            Value::Str($x) => $direct,
            Value::Signature($x) => $direct,
            Value::ObjectPath($x) => $direct,
            Value::Value(b) => {
                let $x = &**b;
                $direct
            }
            Value::Array($x) => $direct,
            Value::Structure($x) => $direct,
            Value::Fd($x) => $direct,
            Value::Dict($y) => {
                let $s = $y.signature().clone();
                $withsig
            }
            #[cfg(feature = "gvariant")]
            Value::Maybe($y) => {
                let $s = $y.signature().clone();
                $withsig
            }
        }
    };
}

/// Route `dyn`: the bare value (not a variant) through the dynamic types at top level.
pub fn enc_dyn(v: &Value<'_>, c: Context) -> Result<Encoded, String> {
    flat(catch(|| {
        on_bare!(v, x => zvariant::to_bytes(c, x), s, y => zvariant::to_bytes_for_signature(c, &s, y))
    }))
    .map(|data| Encoded { data })
}

/// `serialized_size` on route `dyn`: (size, reported number of fds).
pub fn size_dyn(v: &Value<'_>, c: Context) -> Result<(usize, u32), String> {
    flat(catch(|| {
        on_bare!(v, x => zvariant::serialized_size(c, x), s, y => zvariant::serialized_size(c, &WithSig(y, s)))
    }))
    .map(|s| (s.size(), s.num_fds()))
}

/// Route `variant`: the value as a D-Bus VARIANT.
pub fn enc_variant(v: &Value<'_>, c: Context) -> Result<Encoded, String> {
    flat(catch(|| zvariant::to_bytes(c, v))).map(|data| Encoded { data })
}

pub fn size_variant(v: &Value<'_>, c: Context) -> Result<(usize, u32), String> {
    flat(catch(|| zvariant::serialized_size(c, v))).map(|s| (s.size(), s.num_fds()))
}

/// Generic serde serialization of a harness value (route `serde`). Dict entries are emitted in
/// the order they have in the `RV`.
pub struct RvSer<'a> {
    pub rv: &'a RV,
    pub fds: &'a FdTable,
}

impl Serialize for RvSer<'_> {
    fn serialize<S: serde::Serializer>(&self, s: S) -> Result<S::Ok, S::Error> {
        use serde::ser::Error;
        let sub = |rv| RvSer { rv, fds: self.fds };
        match self.rv {
            RV::Y(x) => x.serialize(s),
            RV::B(x) => x.serialize(s),
            RV::N(x) => x.serialize(s),
            RV::Q(x) => x.serialize(s),
            RV::I(x) => x.serialize(s),
            RV::U(x) => x.serialize(s),
            RV::X(x) => x.serialize(s),
            RV::T(x) => x.serialize(s),
            RV::D(x) => f64::from_bits(*x).serialize(s),
            RV::S(x) => x.as_str().serialize(s),
            RV::O(x) => ObjectPath::try_from(x.as_str()).map_err(S::Error::custom)?.serialize(s),
            RV::G(x) => Signature::try_from(x.as_str()).map_err(S::Error::custom)?.serialize(s),
            RV::V(b) => rv::to_value(&RV::V(b.clone()), self.fds)
                .map_err(S::Error::custom)
                .and_then(|v| match v {
                    // `to_value` of a variant gives Value::Value(inner); serializing `inner` emits
                    // the variant (signature + value).
                    Value::Value(inner) => inner.serialize(s),
                    _ => Err(S::Error::custom("harness: not a variant")),
                }),
            RV::H(i) => Fd::from(self.fds.fds[*i as usize].as_fd()).serialize(s),
            RV::Array(_, xs) => {
                let mut seq = s.serialize_seq(Some(xs.len()))?;
                for x in xs {
                    seq.serialize_element(&sub(x))?;
                }
                seq.end()
            }
            RV::Dict(_, _, xs) => {
                let mut m = s.serialize_map(Some(xs.len()))?;
                for (k, v) in xs {
                    m.serialize_key(&sub(k))?;
                    m.serialize_value(&sub(v))?;
                }
                m.end()
            }
            RV::Struct(xs) => {
                let mut t = s.serialize_tuple(xs.len())?;
                for x in xs {
                    t.serialize_element(&sub(x))?;
                }
                t.end()
            }
            RV::Maybe(_, None) => s.serialize_none(),
            RV::Maybe(_, Some(x)) => s.serialize_some(&sub(x)),
        }
    }
}

pub fn enc_serde(rv: &RV, fds: &FdTable, c: Context) -> Result<Encoded, String> {
    let sig = rv::zsig(&rv.ty());
    flat(catch(|| zvariant::to_bytes_for_signature(c, &sig, &RvSer { rv, fds }))).map(|data| Encoded { data })
}

pub fn size_serde(rv: &RV, fds: &FdTable, c: Context) -> Result<(usize, u32), String> {
    let sig = rv::zsig(&rv.ty());
    let ser = RvSer { rv, fds };
    flat(catch(|| zvariant::serialized_size(c, &WithSig(&ser, sig)))).map(|s| (s.size(), s.num_fds()))
}

// ------------------------------------------------------------------------------------------
// decode
// ------------------------------------------------------------------------------------------

/// Build a `Data` over `bytes` with the thread's fd table attached (borrowed).
pub fn data_with_fds<'b, 'f>(bytes: &'b [u8], c: Context, fds: &'f FdTable, n_fds: usize) -> Data<'b, 'f> {
    Data::new_borrowed_fds(bytes, c, fds.fds.iter().take(n_fds).map(|f| f.as_fd()))
}

pub type FdMap<'a> = &'a dyn Fn(i32) -> u32;

/// The string of a parsed `zvariant::Signature` held as the value of a `g`. `to_string()` keeps the
/// parentheses of struct signatures ("(y)", "((y))"); the price is that a sequence of several
/// complete types ("yy"), which zvariant parses to the same `Structure([y, y])` as "(yy)", comes
/// back with parentheses — `rv_same` compares `g` values modulo that one pair (see `g_norm`).
/// (`rv::from_value` uses `to_string_no_parens()`, which turns "(y)" into "y".)
pub fn g_string(s: &Signature) -> String {
    s.to_string()
}

/// Read a `zvariant::Value` back into the harness tree (like `rv::from_value`, but `g` through
/// `g_string`).
pub fn from_value(v: &Value<'_>, fd_index: FdMap<'_>) -> Result<RV, String> {
    Ok(match v {
        Value::Signature(s) => RV::G(g_string(s)),
        Value::Value(inner) => {
            let r = from_value(inner, fd_index)?;
            RV::V(Box::new((r.ty(), r)))
        }
        Value::Array(a) => {
            let e = rv::parse_ty(&a.element_signature().to_string())
                .ok_or_else(|| format!("array element signature {}", a.element_signature()))?;
            let xs = a.inner().iter().map(|x| from_value(x, fd_index)).collect::<Result<Vec<_>, _>>()?;
            RV::Array(e, xs)
        }
        Value::Dict(d) => {
            let full = d.signature().to_string();
            let Some(Ty::Dict(k, vt)) = rv::parse_ty(&full) else {
                return Err(format!("dict signature {full}"));
            };
            let xs = d
                .iter()
                .map(|(kk, vv)| Ok((from_value(kk, fd_index)?, from_value(vv, fd_index)?)))
                .collect::<Result<Vec<_>, String>>()?;
            RV::Dict(*k, *vt, xs)
        }
        Value::Structure(s) => RV::Struct(
            s.fields().iter().map(|x| from_value(x, fd_index)).collect::<Result<Vec<_>, _>>()?,
        ),
        #[cfg(feature = "gvariant")]
        Value::Maybe(m) => {
            let e = rv::parse_ty(&m.value_signature().to_string())
                .ok_or_else(|| format!("maybe signature {}", m.value_signature()))?;
            match m.inner() {
                None => RV::Maybe(e, None),
                Some(x) => RV::Maybe(e, Some(Box::new(from_value(x, fd_index)?))),
            }
        }
        leaf => rv::from_value(leaf, fd_index)?,
    })
}

fn conv(v: &Value<'_>, fdmap: FdMap<'_>) -> Result<RV, zvariant::Error> {
    from_value(v, fdmap).map_err(|e| zvariant::Error::Message(format!("harness conversion: {e}")))
}

/// Route `variant`: decode a VARIANT (`Value`, signature `v`) → `RV::V`.
pub fn dec_variant(d: &Data<'_, '_>, fdmap: FdMap<'_>) -> Result<(RV, usize), String> {
    flat(catch(|| {
        let (v, n): (Value<'_>, usize) = d.deserialize()?;
        let inner = conv(&v, fdmap)?;
        Ok((RV::V(Box::new((inner.ty(), inner))), n))
    }))
}

/// Does route `dyn` have a decode target for this type? (`Dict` and `Maybe` have no
/// `DynamicDeserialize` implementation of their own.)
pub fn dyn_decodable(ty: &Ty) -> bool {
    !matches!(ty, Ty::Dict(..) | Ty::Maybe(_))
}

/// Route `dyn`: decode a bare value with the typed/dynamic target for its top-level type.
pub fn dec_dyn(ty: &Ty, d: &Data<'_, '_>, fdmap: FdMap<'_>) -> Result<(RV, usize), String> {
    flat(catch(|| -> Result<(RV, usize), zvariant::Error> {
        Ok(match ty {
            Ty::Y => d.deserialize::<u8>().map(|(x, n)| (RV::Y(x), n))?,
            Ty::B => d.deserialize::<bool>().map(|(x, n)| (RV::B(x), n))?,
            Ty::N => d.deserialize::<i16>().map(|(x, n)| (RV::N(x), n))?,
            Ty::Q => d.deserialize::<u16>().map(|(x, n)| (RV::Q(x), n))?,
            Ty::I => d.deserialize::<i32>().map(|(x, n)| (RV::I(x), n))?,
            Ty::U => d.deserialize::<u32>().map(|(x, n)| (RV::U(x), n))?,
            Ty::X => d.deserialize::<i64>().map(|(x, n)| (RV::X(x), n))?,
            Ty::T => d.deserialize::<u64>().map(|(x, n)| (RV::T(x), n))?,
            Ty::D => d.deserialize::<f64>().map(|(x, n)| (RV::D(x.to_bits()), n))?,
            Ty::S => d.deserialize::<&str>().map(|(x, n)| (RV::S(x.to_string()), n))?,
            Ty::O => d
                .deserialize::<ObjectPath<'_>>()
                .map(|(x, n)| (RV::O(x.as_str().to_string()), n))?,
            Ty::G => d
                .deserialize::<Signature>()
                .map(|(x, n)| (RV::G(g_string(&x)), n))?,
            Ty::H => d.deserialize::<Fd<'_>>().map(|(x, n)| (RV::H(fdmap(x.as_raw_fd())), n))?,
            Ty::V => {
                let (v, n): (Value<'_>, usize) = d.deserialize()?;
                let inner = conv(&v, fdmap)?;
                (RV::V(Box::new((inner.ty(), inner))), n)
            }
            Ty::Array(_) => {
                let (a, n): (Array<'_>, usize) = d.deserialize_for_dynamic_signature(&rv::zsig(ty))?;
                (conv(&Value::Array(a), fdmap)?, n)
            }
            Ty::Struct(_) => {
                let (s, n): (Structure<'_>, usize) = d.deserialize_for_dynamic_signature(&rv::zsig(ty))?;
                (conv(&Value::Structure(s), fdmap)?, n)
            }
            Ty::Dict(..) | Ty::Maybe(_) => {
                return Err(zvariant::Error::Message("harness: no dyn target".into()))
            }
        })
    }))
}

/// Generic serde deserialization into a harness value (route `serde`).
#[derive(Clone, Copy)]
pub struct RvSeed<'a> {
    pub ty: &'a Ty,
    pub fdmap: FdMap<'a>,
}

impl DynamicType for RvSeed<'_> {
    fn signature(&self) -> Signature {
        rv::zsig(self.ty)
    }
}

impl<'de> DeserializeSeed<'de> for RvSeed<'_> {
    type Value = RV;
    fn deserialize<D: serde::Deserializer<'de>>(self, d: D) -> Result<RV, D::Error> {
        use serde::de::Error;
        Ok(match self.ty {
            Ty::Y => RV::Y(u8::deserialize(d)?),
            Ty::B => RV::B(bool::deserialize(d)?),
            Ty::N => RV::N(i16::deserialize(d)?),
            Ty::Q => RV::Q(u16::deserialize(d)?),
            Ty::I => RV::I(i32::deserialize(d)?),
            Ty::U => RV::U(u32::deserialize(d)?),
            Ty::X => RV::X(i64::deserialize(d)?),
            Ty::T => RV::T(u64::deserialize(d)?),
            Ty::D => RV::D(f64::deserialize(d)?.to_bits()),
            Ty::S => RV::S(String::deserialize(d)?),
            Ty::O => RV::O(OwnedObjectPath::deserialize(d)?.as_str().to_string()),
            Ty::G => RV::G(g_string(&Signature::deserialize(d)?)),
            Ty::H => RV::H((self.fdmap)(Fd::deserialize(d)?.as_raw_fd())),
            Ty::V => {
                let v = Value::deserialize(d)?;
                let inner = from_value(&v, self.fdmap).map_err(D::Error::custom)?;
                RV::V(Box::new((inner.ty(), inner)))
            }
            Ty::Array(_) => d.deserialize_seq(self)?,
            Ty::Dict(..) => d.deserialize_map(self)?,
            Ty::Struct(fs) => d.deserialize_tuple(fs.len(), self)?,
            Ty::Maybe(_) => d.deserialize_option(self)?,
        })
    }
}

impl<'de> Visitor<'de> for RvSeed<'_> {
    type Value = RV;
    fn expecting(&self, f: &mut std::fmt::Formatter<'_>) -> std::fmt::Result {
        write!(f, "a value of type {}", self.ty.sig())
    }
    fn visit_seq<A: SeqAccess<'de>>(self, mut a: A) -> Result<RV, A::Error> {
        use serde::de::Error;
        match self.ty {
            Ty::Array(e) => {
                let mut xs = vec![];
                while let Some(x) = a.next_element_seed(RvSeed { ty: e, fdmap: self.fdmap })? {
                    xs.push(x);
                }
                Ok(RV::Array((**e).clone(), xs))
            }
            Ty::Struct(fs) => {
                let mut xs = vec![];
                for f in fs {
                    match a.next_element_seed(RvSeed { ty: f, fdmap: self.fdmap })? {
                        Some(x) => xs.push(x),
                        None => return Err(A::Error::custom("harness: struct ended early")),
                    }
                }
                Ok(RV::Struct(xs))
            }
            _ => Err(A::Error::custom("harness: unexpected seq")),
        }
    }
    fn visit_map<A: MapAccess<'de>>(self, mut a: A) -> Result<RV, A::Error> {
        use serde::de::Error;
        let Ty::Dict(k, v) = self.ty else {
            return Err(A::Error::custom("harness: unexpected map"));
        };
        let mut xs = vec![];
        while let Some(kk) = a.next_key_seed(RvSeed { ty: k, fdmap: self.fdmap })? {
            let vv = a.next_value_seed(RvSeed { ty: v, fdmap: self.fdmap })?;
            xs.push((kk, vv));
        }
        Ok(RV::Dict((**k).clone(), (**v).clone(), xs))
    }
    fn visit_none<E: serde::de::Error>(self) -> Result<RV, E> {
        match self.ty {
            Ty::Maybe(e) => Ok(RV::Maybe((**e).clone(), None)),
            _ => Err(E::custom("harness: unexpected none")),
        }
    }
    fn visit_some<D: serde::Deserializer<'de>>(self, d: D) -> Result<RV, D::Error> {
        use serde::de::Error;
        match self.ty {
            Ty::Maybe(e) => {
                let x = RvSeed { ty: e, fdmap: self.fdmap }.deserialize(d)?;
                Ok(RV::Maybe((**e).clone(), Some(Box::new(x))))
            }
            _ => Err(D::Error::custom("harness: unexpected some")),
        }
    }
}

pub fn dec_serde(ty: &Ty, d: &Data<'_, '_>, fdmap: FdMap<'_>) -> Result<(RV, usize), String> {
    flat(catch(|| d.deserialize_with_seed(RvSeed { ty, fdmap })))
}

// ------------------------------------------------------------------------------------------
// value comparison helpers
// ------------------------------------------------------------------------------------------

/// zvariant's parsed `Signature` cannot tell a sequence of several complete types ("yy") from the
/// struct of them ("(yy)"): both parse to `Structure([y, y])`. For the value of a `g` the harness
/// therefore compares modulo one pair of parentheses around the whole string (recorded as an
/// observation, not judged here — the signature grammar is C06's subject).
pub fn g_norm(s: &str) -> &str {
    if s.len() >= 2 && s.starts_with('(') && s.ends_with(')') {
        // does the first '(' match the last ')' ?
        let mut depth = 0i32;
        for (i, c) in s.char_indices() {
            match c {
                '(' => depth += 1,
                ')' => {
                    depth -= 1;
                    if depth == 0 && i != s.len() - 1 {
                        return s;
                    }
                }
                _ => {}
            }
        }
        return &s[1..s.len() - 1];
    }
    s
}

/// `rv::rv_eq` (floats bitwise, dict entries as multisets) with `g` compared through `g_norm`.
pub fn rv_same(a: &RV, b: &RV) -> bool {
    match (a, b) {
        (RV::G(x), RV::G(y)) => x == y || g_norm(x) == g_norm(y),
        (RV::Dict(k1, v1, x1), RV::Dict(k2, v2, x2)) => {
            if k1 != k2 || v1 != v2 || x1.len() != x2.len() {
                return false;
            }
            let mut used = vec![false; x2.len()];
            'outer: for (ka, va) in x1 {
                for (i, (kb, vb)) in x2.iter().enumerate() {
                    if !used[i] && rv_same(ka, kb) && rv_same(va, vb) {
                        used[i] = true;
                        continue 'outer;
                    }
                }
                return false;
            }
            true
        }
        (RV::Array(e1, x1), RV::Array(e2, x2)) => {
            e1 == e2 && x1.len() == x2.len() && x1.iter().zip(x2).all(|(p, q)| rv_same(p, q))
        }
        (RV::Struct(x1), RV::Struct(x2)) => x1.len() == x2.len() && x1.iter().zip(x2).all(|(p, q)| rv_same(p, q)),
        (RV::V(p), RV::V(q)) => p.0 == q.0 && rv_same(&p.1, &q.1),
        (RV::Maybe(e1, x1), RV::Maybe(e2, x2)) => {
            e1 == e2
                && match (x1, x2) {
                    (None, None) => true,
                    (Some(p), Some(q)) => rv_same(p, q),
                    _ => false,
                }
        }
        _ => a == b,
    }
}

/// A wire dict may repeat a key; zvariant's `Dict`/maps keep the last entry for a key (at the
/// position of the first). The property does not say what a repeated key denotes, so both sides
/// are compared after this normalisation (applied recursively).
pub fn dedup_dict_keys(v: &RV) -> RV {
    match v {
        RV::Dict(k, vt, xs) => {
            let mut out: Vec<(RV, RV)> = vec![];
            for (kk, vv) in xs {
                let kk = dedup_dict_keys(kk);
                let vv = dedup_dict_keys(vv);
                if let Some(slot) = out.iter_mut().find(|(k0, _)| rv_same(k0, &kk)) {
                    slot.1 = vv;
                } else {
                    out.push((kk, vv));
                }
            }
            RV::Dict(k.clone(), vt.clone(), out)
        }
        RV::Array(e, xs) => RV::Array(e.clone(), xs.iter().map(dedup_dict_keys).collect()),
        RV::Struct(xs) => RV::Struct(xs.iter().map(dedup_dict_keys).collect()),
        RV::V(b) => RV::V(Box::new((b.0.clone(), dedup_dict_keys(&b.1)))),
        RV::Maybe(e, Some(x)) => RV::Maybe(e.clone(), Some(Box::new(dedup_dict_keys(x)))),
        _ => v.clone(),
    }
}

pub fn has_dup_keys(v: &RV) -> bool {
    match v {
        RV::Dict(_, _, xs) => {
            for (i, (k, vv)) in xs.iter().enumerate() {
                if xs[..i].iter().any(|(k0, _)| rv_same(k0, k)) || has_dup_keys(k) || has_dup_keys(vv) {
                    return true;
                }
            }
            false
        }
        RV::Array(_, xs) | RV::Struct(xs) => xs.iter().any(has_dup_keys),
        RV::V(b) => has_dup_keys(&b.1),
        RV::Maybe(_, Some(x)) => has_dup_keys(x),
        _ => false,
    }
}

/// Does the value contain a float key that zvariant's `Dict` (a `BTreeMap<Value, Value>`) treats
/// specially (0.0 == -0.0, NaN)? Only used to label cases.
pub fn contains_ty(v: &Ty, pred: &dyn Fn(&Ty) -> bool) -> bool {
    v.contains(pred)
}

// ------------------------------------------------------------------------------------------
// typed bank
// ------------------------------------------------------------------------------------------

type DetHash = BuildHasherDefault<std::collections::hash_map::DefaultHasher>;

/// A Rust type of the bank: how to build it from / read it back into a harness value.
pub trait Bk: Sized + Serialize + for<'de> Deserialize<'de> + Type {
    fn ty() -> Ty;
    fn from_rv(rv: &RV) -> Option<Self>;
    fn to_rv(&self) -> RV;
    /// false when the type cannot be encoded in D-Bus format in this build (`Option` without the
    /// `option-as-array` feature is GVariant-only).
    fn dbus_ok() -> bool {
        true
    }
    /// false when the type cannot be encoded in GVariant format in this build.
    fn gv_ok() -> bool {
        true
    }
}

macro_rules! bk_prim {
    ($t:ty, $ty:ident, $rv:ident) => {
        impl Bk for $t {
            fn ty() -> Ty {
                Ty::$ty
            }
            fn from_rv(rv: &RV) -> Option<Self> {
                match rv {
                    RV::$rv(x) => Some(*x),
                    _ => None,
                }
            }
            fn to_rv(&self) -> RV {
                RV::$rv(*self)
            }
        }
    };
}
bk_prim!(u8, Y, Y);
bk_prim!(bool, B, B);
bk_prim!(i16, N, N);
bk_prim!(u16, Q, Q);
bk_prim!(i32, I, I);
bk_prim!(u32, U, U);
bk_prim!(i64, X, X);
bk_prim!(u64, T, T);

impl Bk for f64 {
    fn ty() -> Ty {
        Ty::D
    }
    fn from_rv(rv: &RV) -> Option<Self> {
        match rv {
            RV::D(x) => Some(f64::from_bits(*x)),
            _ => None,
        }
    }
    fn to_rv(&self) -> RV {
        RV::D(self.to_bits())
    }
}
impl Bk for String {
    fn ty() -> Ty {
        Ty::S
    }
    fn from_rv(rv: &RV) -> Option<Self> {
        match rv {
            RV::S(x) => Some(x.clone()),
            _ => None,
        }
    }
    fn to_rv(&self) -> RV {
        RV::S(self.clone())
    }
}
impl Bk for OwnedObjectPath {
    fn ty() -> Ty {
        Ty::O
    }
    fn from_rv(rv: &RV) -> Option<Self> {
        match rv {
            RV::O(x) => OwnedObjectPath::try_from(x.as_str()).ok(),
            _ => None,
        }
    }
    fn to_rv(&self) -> RV {
        RV::O(self.as_str().to_string())
    }
}
impl Bk for Signature {
    fn ty() -> Ty {
        Ty::G
    }
    fn from_rv(rv: &RV) -> Option<Self> {
        match rv {
            RV::G(x) => Signature::try_from(x.as_str()).ok(),
            _ => None,
        }
    }
    fn to_rv(&self) -> RV {
        RV::G(g_string(self))
    }
}
impl Bk for OwnedValue {
    fn ty() -> Ty {
        Ty::V
    }
    fn from_rv(rv: &RV) -> Option<Self> {
        match rv {
            RV::V(b) if b.1.max_fd_index().is_none() => {
                let empty = FdTable { fds: vec![] };
                let v = rv::to_value(&b.1, &empty).ok()?;
                OwnedValue::try_from(v).ok()
            }
            _ => None,
        }
    }
    fn to_rv(&self) -> RV {
        let inner = from_value(self, &|_| u32::MAX).expect("harness: OwnedValue conversion");
        RV::V(Box::new((inner.ty(), inner)))
    }
}
impl<T: Bk> Bk for Vec<T> {
    fn ty() -> Ty {
        Ty::Array(Box::new(T::ty()))
    }
    fn from_rv(rv: &RV) -> Option<Self> {
        match rv {
            RV::Array(e, xs) if *e == T::ty() => xs.iter().map(T::from_rv).collect(),
            _ => None,
        }
    }
    fn to_rv(&self) -> RV {
        RV::Array(T::ty(), self.iter().map(|x| x.to_rv()).collect())
    }
    fn dbus_ok() -> bool {
        T::dbus_ok()
    }
    fn gv_ok() -> bool {
        T::gv_ok()
    }
}
impl<K: Bk + Eq + std::hash::Hash, V: Bk> Bk for HashMap<K, V, DetHash> {
    fn ty() -> Ty {
        Ty::Dict(Box::new(K::ty()), Box::new(V::ty()))
    }
    fn from_rv(rv: &RV) -> Option<Self> {
        match rv {
            RV::Dict(k, v, xs) if *k == K::ty() && *v == V::ty() => {
                let mut m = HashMap::default();
                for (kk, vv) in xs {
                    m.insert(K::from_rv(kk)?, V::from_rv(vv)?);
                }
                Some(m)
            }
            _ => None,
        }
    }
    fn to_rv(&self) -> RV {
        RV::Dict(K::ty(), V::ty(), self.iter().map(|(k, v)| (k.to_rv(), v.to_rv())).collect())
    }
    fn dbus_ok() -> bool {
        K::dbus_ok() && V::dbus_ok()
    }
    fn gv_ok() -> bool {
        K::gv_ok() && V::gv_ok()
    }
}
impl<K: Bk + Ord, V: Bk> Bk for BTreeMap<K, V> {
    fn ty() -> Ty {
        Ty::Dict(Box::new(K::ty()), Box::new(V::ty()))
    }
    fn from_rv(rv: &RV) -> Option<Self> {
        match rv {
            RV::Dict(k, v, xs) if *k == K::ty() && *v == V::ty() => {
                let mut m = BTreeMap::new();
                for (kk, vv) in xs {
                    m.insert(K::from_rv(kk)?, V::from_rv(vv)?);
                }
                Some(m)
            }
            _ => None,
        }
    }
    fn to_rv(&self) -> RV {
        RV::Dict(K::ty(), V::ty(), self.iter().map(|(k, v)| (k.to_rv(), v.to_rv())).collect())
    }
    fn dbus_ok() -> bool {
        K::dbus_ok() && V::dbus_ok()
    }
    fn gv_ok() -> bool {
        K::gv_ok() && V::gv_ok()
    }
}

macro_rules! bk_tuple {
    ($(($($n:tt $t:ident),+))+) => {$(
        impl<$($t: Bk),+> Bk for ($($t,)+) {
            fn ty() -> Ty { Ty::Struct(vec![$($t::ty()),+]) }
            fn from_rv(rv: &RV) -> Option<Self> {
                match rv {
                    RV::Struct(xs) if xs.len() == [$($n),+].len() => Some(($($t::from_rv(&xs[$n])?,)+)),
                    _ => None,
                }
            }
            fn to_rv(&self) -> RV { RV::Struct(vec![$(self.$n.to_rv()),+]) }
            fn dbus_ok() -> bool { true $(&& $t::dbus_ok())+ }
            fn gv_ok() -> bool { true $(&& $t::gv_ok())+ }
        }
    )+};
}
bk_tuple! { (0 A) (0 A, 1 B) (0 A, 1 B, 2 C) }

// `Option<T>`: with `option-as-array` its signature is `aT` (0 or 1 elements) in both formats' type
// system; without it (gvariant builds only) it is the GVariant maybe type `mT`.
#[cfg(feature = "option-as-array")]
impl<T: Bk> Bk for Option<T> {
    fn ty() -> Ty {
        Ty::Array(Box::new(T::ty()))
    }
    fn from_rv(rv: &RV) -> Option<Self> {
        match rv {
            RV::Array(e, xs) if *e == T::ty() && xs.len() <= 1 => match xs.first() {
                None => Some(None),
                Some(x) => Some(Some(T::from_rv(x)?)),
            },
            _ => None,
        }
    }
    fn to_rv(&self) -> RV {
        RV::Array(T::ty(), self.iter().map(|x| x.to_rv()).collect())
    }
    fn dbus_ok() -> bool {
        T::dbus_ok()
    }
    fn gv_ok() -> bool {
        // With `option-as-array` the type's signature is an array while the GVariant serializer
        // still treats `Option` as a maybe: not a (format, type) pair the library offers.
        false
    }
}
#[cfg(all(feature = "gvariant", not(feature = "option-as-array")))]
impl<T: Bk> Bk for Option<T> {
    fn ty() -> Ty {
        Ty::Maybe(Box::new(T::ty()))
    }
    fn from_rv(rv: &RV) -> Option<Self> {
        match rv {
            RV::Maybe(e, x) if *e == T::ty() => match x {
                None => Some(None),
                Some(x) => Some(Some(T::from_rv(x)?)),
            },
            _ => None,
        }
    }
    fn to_rv(&self) -> RV {
        RV::Maybe(T::ty(), self.as_ref().map(|x| Box::new(x.to_rv())))
    }
    fn dbus_ok() -> bool {
        false
    }
}

// derived shapes
#[derive(Debug, Serialize, Deserialize, Type, PartialEq)]
pub struct SYs {
    pub a: u8,
    pub b: String,
}
impl Bk for SYs {
    fn ty() -> Ty {
        Ty::Struct(vec![Ty::Y, Ty::S])
    }
    fn from_rv(rv: &RV) -> Option<Self> {
        <(u8, String)>::from_rv(rv).map(|(a, b)| SYs { a, b })
    }
    fn to_rv(&self) -> RV {
        (self.a, self.b.clone()).to_rv()
    }
}
#[derive(Debug, Serialize, Deserialize, Type, PartialEq)]
pub struct ST {
    pub x: u64,
}
impl Bk for ST {
    fn ty() -> Ty {
        Ty::Struct(vec![Ty::T])
    }
    fn from_rv(rv: &RV) -> Option<Self> {
        <(u64,)>::from_rv(rv).map(|(x,)| ST { x })
    }
    fn to_rv(&self) -> RV {
        (self.x,).to_rv()
    }
}
#[derive(Debug, Serialize, Deserialize, Type, PartialEq)]
pub struct SNested {
    pub items: Vec<u16>,
    pub tail: i64,
}
impl Bk for SNested {
    fn ty() -> Ty {
        Ty::Struct(vec![Ty::Array(Box::new(Ty::Q)), Ty::X])
    }
    fn from_rv(rv: &RV) -> Option<Self> {
        <(Vec<u16>, i64)>::from_rv(rv).map(|(items, tail)| SNested { items, tail })
    }
    fn to_rv(&self) -> RV {
        (self.items.clone(), self.tail).to_rv()
    }
}
/// newtype struct: transparent (signature of the field)
#[derive(Debug, Serialize, Deserialize, Type, PartialEq)]
pub struct NewU(pub u32);
impl Bk for NewU {
    fn ty() -> Ty {
        Ty::U
    }
    fn from_rv(rv: &RV) -> Option<Self> {
        u32::from_rv(rv).map(NewU)
    }
    fn to_rv(&self) -> RV {
        RV::U(self.0)
    }
}
#[derive(Debug, serde_repr::Serialize_repr, serde_repr::Deserialize_repr, Type, PartialEq, Clone, Copy)]
#[repr(u8)]
pub enum EY {
    Zero = 0,
    One = 1,
    Max = 255,
}
impl Bk for EY {
    fn ty() -> Ty {
        Ty::Y
    }
    fn from_rv(rv: &RV) -> Option<Self> {
        match rv {
            RV::Y(0) => Some(EY::Zero),
            RV::Y(1) => Some(EY::One),
            RV::Y(255) => Some(EY::Max),
            _ => None,
        }
    }
    fn to_rv(&self) -> RV {
        RV::Y(*self as u8)
    }
}
#[derive(Debug, serde_repr::Serialize_repr, serde_repr::Deserialize_repr, Type, PartialEq, Clone, Copy)]
#[repr(i64)]
pub enum EX {
    Min = i64::MIN,
    MinusOne = -1,
    Zero = 0,
    One = 1,
    Max = i64::MAX,
}
impl Bk for EX {
    fn ty() -> Ty {
        Ty::X
    }
    fn from_rv(rv: &RV) -> Option<Self> {
        match rv {
            RV::X(i64::MIN) => Some(EX::Min),
            RV::X(-1) => Some(EX::MinusOne),
            RV::X(0) => Some(EX::Zero),
            RV::X(1) => Some(EX::One),
            RV::X(i64::MAX) => Some(EX::Max),
            _ => None,
        }
    }
    fn to_rv(&self) -> RV {
        RV::X(*self as i64)
    }
}
/// plain unit enum: derived `Type` gives `u` (variant index)
#[derive(Debug, Serialize, Deserialize, Type, PartialEq, Clone, Copy)]
pub enum EUnit {
    A,
    B,
}
impl Bk for EUnit {
    fn ty() -> Ty {
        Ty::U
    }
    fn from_rv(rv: &RV) -> Option<Self> {
        match rv {
            RV::U(0) => Some(EUnit::A),
            RV::U(1) => Some(EUnit::B),
            _ => None,
        }
    }
    fn to_rv(&self) -> RV {
        RV::U(*self as u32)
    }
}
/// unit enum serialized by name: `#[zvariant(signature = "s")]`
#[derive(Debug, Serialize, Deserialize, Type, PartialEq, Clone, Copy)]
#[zvariant(signature = "s")]
pub enum EStr {
    #[serde(rename = "")]
    Empty,
    #[serde(rename = "a")]
    A,
    #[serde(rename = "é/€")]
    Uni,
}
impl Bk for EStr {
    fn ty() -> Ty {
        Ty::S
    }
    fn from_rv(rv: &RV) -> Option<Self> {
        match rv {
            RV::S(s) if s.is_empty() => Some(EStr::Empty),
            RV::S(s) if s == "a" => Some(EStr::A),
            RV::S(s) if s == "é/€" => Some(EStr::Uni),
            _ => None,
        }
    }
    fn to_rv(&self) -> RV {
        RV::S(
            match self {
                EStr::Empty => "",
                EStr::A => "a",
                EStr::Uni => "é/€",
            }
            .to_string(),
        )
    }
}

pub struct TypedEnc {
    pub bytes: Result<Vec<u8>, String>,
    pub size: Result<usize, String>,
    /// the value as the typed Rust value presents it (map entries in its iteration order)
    pub as_rv: RV,
}

pub trait TypedOps: Sync + Send {
    fn name(&self) -> &'static str;
    fn ty(&self) -> Ty;
    fn dbus_ok(&self) -> bool;
    fn gv_ok(&self) -> bool;
    /// The Rust type's own `Type::SIGNATURE` as a string.
    fn declared_sig(&self) -> String;
    /// None when `rv` is not a value of this Rust type.
    fn encode(&self, rv: &RV, c: Context) -> Option<TypedEnc>;
    fn decode(&self, bytes: &[u8], c: Context) -> Result<(RV, usize), String>;
}

pub struct Ops<T>(&'static str, PhantomData<fn() -> T>);

impl<T: Bk> TypedOps for Ops<T> {
    fn name(&self) -> &'static str {
        self.0
    }
    fn ty(&self) -> Ty {
        T::ty()
    }
    fn dbus_ok(&self) -> bool {
        T::dbus_ok()
    }
    fn gv_ok(&self) -> bool {
        T::gv_ok()
    }
    fn declared_sig(&self) -> String {
        T::SIGNATURE.to_string()
    }
    fn encode(&self, rv: &RV, c: Context) -> Option<TypedEnc> {
        let t = T::from_rv(rv)?;
        let bytes = flat(catch(|| zvariant::to_bytes(c, &t))).map(|d| d.bytes().to_vec());
        let size = flat(catch(|| zvariant::serialized_size(c, &t))).map(|s| s.size());
        Some(TypedEnc {
            bytes,
            size,
            as_rv: t.to_rv(),
        })
    }
    fn decode(&self, bytes: &[u8], c: Context) -> Result<(RV, usize), String> {
        flat(catch(|| {
            let d = Data::new(bytes, c);
            let (t, n): (T, usize) = d.deserialize()?;
            Ok((t.to_rv(), n))
        }))
    }
}

macro_rules! ops {
    ($($t:ty),+ $(,)?) => { vec![$(Box::new(Ops::<$t>(stringify!($t), PhantomData)) as Box<dyn TypedOps>),+] };
}

type HM<K, V> = HashMap<K, V, DetHash>;

/// The bank. Several Rust types may share a signature.
pub fn bank() -> Vec<Box<dyn TypedOps>> {
    #[allow(unused_mut)]
    let mut v: Vec<Box<dyn TypedOps>> = ops![
        // leaves through derived / repr types
        NewU, EY, EX, EUnit, EStr,
        // tuples (structs)
        (u8,), (String,), (u64,), (bool,), (OwnedValue,), (Signature,),
        (u8, String), (bool, u8), (u8, u64), (i16, i32), (String, u32), (OwnedObjectPath, Signature),
        (f64, u8), (u8, f64), (u16, i64), (String, String), (u8, OwnedValue), (OwnedValue, u8),
        (u8, u8, u8), (u8, u32, u64), (u8, String, bool), (String, u8, i64),
        ((u8,),), ((u64,), u8), (u8, (u64,)), (Vec<u8>,), (Vec<u64>, u8), (u8, Vec<u64>), (Vec<String>,),
        SYs, ST, SNested,
        // arrays
        Vec<u8>, Vec<bool>, Vec<i16>, Vec<u16>, Vec<i32>, Vec<u32>, Vec<i64>, Vec<u64>, Vec<f64>,
        Vec<String>, Vec<OwnedObjectPath>, Vec<Signature>, Vec<OwnedValue>,
        Vec<Vec<u8>>, Vec<Vec<u64>>, Vec<Vec<String>>, Vec<(u8,)>, Vec<(u64,)>, Vec<(String,)>,
        Vec<(u8, u64)>, Vec<(u8, String)>, Vec<SYs>, Vec<EY>,
        // dicts
        HM<String, u32>, HM<String, String>, HM<u8, String>, HM<u32, u64>, HM<bool, u8>, HM<i64, i16>,
        HM<String, OwnedValue>, HM<u8, Vec<u8>>, HM<String, (u8,)>, HM<u16, Vec<u64>>, HM<String, (u8, u64)>,
        BTreeMap<String, u64>, BTreeMap<u16, String>, BTreeMap<u8, u8>, HM<OwnedObjectPath, u8>,
        BTreeMap<i32, OwnedValue>, BTreeMap<u64, f64>,
        (HM<String, u32>,), Vec<HM<u8, u8>>,
    ];
    #[cfg(any(feature = "option-as-array", feature = "gvariant"))]
    v.extend(ops![
        Option<u8>, Option<u32>, Option<u64>, Option<bool>, Option<String>, Option<f64>, Option<OwnedValue>,
        Option<(u8,)>, Option<(u8, u64)>, Option<Vec<u8>>, Option<Option<u8>>, Option<Option<String>>,
        (Option<u8>,), (Option<u64>, u8), (u8, Option<u64>), (Option<String>, u8),
        Vec<Option<u8>>, Vec<Option<u64>>, Vec<Option<String>>, HM<u8, Option<u64>>, HM<String, Option<String>>,
    ]);
    v
}

/// Bank indexed by the signature of the shape.
pub fn bank_by_sig() -> BTreeMap<String, Vec<Box<dyn TypedOps>>> {
    let mut m: BTreeMap<String, Vec<Box<dyn TypedOps>>> = BTreeMap::new();
    for o in bank() {
        m.entry(o.ty().sig()).or_default().push(o);
    }
    m
}

// ------------------------------------------------------------------------------------------
// corpus and alphabet
// ------------------------------------------------------------------------------------------

/// The byte alphabet of C03's exhaustive part.
pub const ALPHABET: [u8; 9] = [0x00, 0x01, 0x02, 0x04, 0x08, b'a', b'/', 0x80, 0xff];

pub struct Corpus {
    pub items: Vec<(Ty, Vec<RV>)>,
    pub capped_types: usize,
}

/// Every type with ≤ `max_nodes` nodes and its value list (`rv::values`, per-type cap `cap`).
pub fn corpus(max_nodes: usize, maybe: bool, cap: usize) -> Corpus {
    let dom = rv::Domain::standard(cap);
    let mut capped_types = 0;
    let items = rv::all_types(max_nodes, maybe)
        .into_iter()
        .map(|t| {
            let mut capped = false;
            let vs = rv::values(&t, &dom, &mut capped);
            if capped {
                capped_types += 1;
            }
            (t, vs)
        })
        .collect();
    Corpus { items, capped_types }
}

/// The value as zvariant's dynamic types hold it after construction through the public
/// constructors: `Dict` is a `BTreeMap<Value, Value>`, so entries come back in its order (and keys
/// it considers equal are merged). This — not the harness's input list — is "the value" whose
/// encoding is judged.
pub fn normalize(rv: &RV, fds: &FdTable) -> Result<RV, String> {
    let v = rv::to_value(rv, fds)?;
    from_value(&v, &|raw| fd_index(fds, raw))
}

// ------------------------------------------------------------------------------------------
// accumulator
// ------------------------------------------------------------------------------------------

/// Per-work-unit accumulator, flushed into the `Report` (or serialized for a parent process) once
/// per unit.
#[derive(Default)]
pub struct Acc {
    pub evals: u64,
    pub outcomes: BTreeMap<String, u64>,
    pub nontrivial: BTreeSet<u64>,
    pub violations: Vec<Violation>,
    pub samples: Vec<J>,
    pub counters: BTreeMap<String, u64>,
}

impl Acc {
    pub fn outcome(&mut self, class: &str) {
        match self.outcomes.get_mut(class) {
            Some(n) => *n += 1,
            None => {
                self.outcomes.insert(class.to_string(), 1);
            }
        }
    }
    pub fn count(&mut self, key: &str, n: u64) {
        match self.counters.get_mut(key) {
            Some(c) => *c += n,
            None => {
                self.counters.insert(key.to_string(), n);
            }
        }
    }
    pub fn violation(&mut self, v: Violation) {
        // bounded: a few per identity per unit
        let same = self
            .violations
            .iter()
            .filter(|o| o.clause == v.clause && o.features == v.features)
            .count();
        self.count("violating_cases", 1);
        // per-identity case counts (route left out), for triage and the evidence file
        let ident = v
            .features
            .iter()
            .filter(|(k, _)| k.as_str() != "route")
            .map(|(k, v)| format!("{k}={v}"))
            .collect::<Vec<_>>()
            .join(",");
        self.count(&format!("cases[{}|{}]", v.clause, ident), 1);
        if same < 2 {
            self.violations.push(v);
        }
    }
    pub fn sample(&mut self, v: J) {
        if self.samples.len() < 4 {
            self.samples.push(v);
        }
    }
    pub fn flush(self, report: &Report) {
        report.eval(self.evals);
        for (k, n) in &self.outcomes {
            report.outcome_n(k, *n);
        }
        report.nontrivial_many(self.nontrivial);
        for v in self.violations {
            report.violation(v);
        }
        for (k, n) in &self.counters {
            report.add(k, *n);
        }
        for s in self.samples {
            report.sample(s);
        }
    }
    pub fn merge(&mut self, o: Acc) {
        self.evals += o.evals;
        for (k, n) in o.outcomes {
            *self.outcomes.entry(k).or_insert(0) += n;
        }
        self.nontrivial.extend(o.nontrivial);
        for v in o.violations {
            self.violation(v);
        }
        for (k, n) in o.counters {
            *self.counters.entry(k).or_insert(0) += n;
        }
        for s in o.samples {
            self.sample(s);
        }
    }
    pub fn to_json(&self) -> J {
        json!({
            "evals": self.evals,
            "outcomes": self.outcomes,
            "nontrivial": self.nontrivial.iter().map(|h| format!("{h:016x}")).collect::<Vec<_>>(),
            "violations": self.violations.iter().map(|v| json!({
                "clause": v.clause, "features": v.features, "detail": v.detail, "replay": v.replay,
            })).collect::<Vec<_>>(),
            "samples": self.samples,
            "counters": self.counters,
        })
    }
    pub fn from_json(j: &J) -> Option<Acc> {
        let mut a = Acc {
            evals: j["evals"].as_u64()?,
            ..Default::default()
        };
        for (k, n) in j["outcomes"].as_object()? {
            a.outcomes.insert(k.clone(), n.as_u64()?);
        }
        for h in j["nontrivial"].as_array()? {
            a.nontrivial.insert(u64::from_str_radix(h.as_str()?, 16).ok()?);
        }
        for v in j["violations"].as_array()? {
            let mut viol = Violation::new(v["clause"].as_str()?, v["detail"].as_str()?, v["replay"].clone());
            for (k, f) in v["features"].as_object()? {
                viol = viol.feat(k, f.as_str()?);
            }
            a.violations.push(viol);
        }
        for s in j["samples"].as_array()? {
            a.samples.push(s.clone());
        }
        for (k, n) in j["counters"].as_object()? {
            a.counters.insert(k.clone(), n.as_u64()?);
        }
        Some(a)
    }
}

/// Shared sink for accumulators when the result has to be shipped to a parent process.
pub struct Sink(pub Mutex<Acc>);

impl Sink {
    pub fn new() -> Self {
        Sink(Mutex::new(Acc::default()))
    }
    pub fn absorb(&self, a: Acc) {
        self.0.lock().unwrap().merge(a);
    }
}

/// Parse `ZV_BINS="gv=/path,gv-oaa=/path,"`.
pub fn zv_bin(cfg: &str) -> Option<String> {
    let v = std::env::var("ZV_BINS").ok()?;
    v.split(',')
        .filter_map(|kv| kv.split_once('='))
        .find(|(k, _)| *k == cfg)
        .map(|(_, p)| p.to_string())
}
