//! C04 — decoding untrusted bytes never crashes.
//!
//! The main binary (gvariant build) spawns, for each of the four feature builds of `zv` handed
//! over in `ZV_BINS` (plain, gv, oaa, gv-oaa), a few child processes
//! (`zv C04 --child <k>/<n> --from <i>`). A child walks its share of a deterministic input list on
//! a thread with a 2 MiB stack, decodes every input through every applicable target with the real
//! decoder, re-encodes what decoded, measures the peak allocation of every decode with a counting
//! global allocator, and reports over stdout (`CURSOR`, `PART <json>`, `DONE` lines). A child that
//! dies (abort, stack overflow, signal) is restarted in single-step mode at its last cursor so that
//! the crashing input and target are identified exactly, then restarted after it.
//!
//! Inputs (per build and format):
//!  S1  every byte string of length ≤ L over {00,01,02,04,08,'a','/',80,ff} (L = 4 quick, 6
//!      thorough), both byte orders → every type with ≤ 2 nodes (+ a bank of 3-node container
//!      types), typed Rust target and dynamic targets;
//!  S2  every string of length ≤ L+1 over a signature-flavoured alphabet → `Value`;
//!  S3  every single-byte substitution over the alphabet and every truncation of the reference
//!      encodings of all values of those types (start positions 0 and 3), and of the variant-wrapped
//!      values of all types with ≤ 3 nodes; thorough adds substitution pairs within 8 bytes;
//!  S4  structural stress: variant signatures of every bracket kind (255 bytes; far longer in
//!      GVariant where nothing bounds the signature length), variant signatures over a signature
//!      alphabet, variant chains to depth 100 (and 1000/10000), GVariant framing-offset bytes set to
//!      every byte value, wide tuples of strings around the 256-byte offset-width threshold.
//!
//! Oracle: no panic, no abnormal child exit, peak allocation of a decode ≤ 256 KiB + 1024 × input
//! length ("far beyond the input size" read generously: the dynamic `Value` tree alone costs up to
//! 128 bytes per input byte), re-encoding a decoded value does not panic.

use serde_json::{json, Value as J};
use std::alloc::{GlobalAlloc, Layout, System};
use std::cell::Cell;
use std::collections::{BTreeMap, HashSet};
use vcommon::{hash64, Args, Report, Violation};

use crate::c05::{ctx, err_class, Fmt};
use crate::rv::{self, FdTable, Ty, RV};

// ------------------------------------------------------------------------------------------
// counting allocator (per-thread live bytes and peak since the last reset)
// ------------------------------------------------------------------------------------------

pub struct Counting;

thread_local! {
    static LIVE: Cell<isize> = const { Cell::new(0) };
    static PEAK: Cell<isize> = const { Cell::new(0) };
}

#[inline]
fn bump(delta: isize) {
    let _ = LIVE.try_with(|l| {
        let v = l.get().wrapping_add(delta);
        l.set(v);
        if delta > 0 {
            let _ = PEAK.try_with(|p| {
                if v > p.get() {
                    p.set(v)
                }
            });
        }
    });
}

unsafe impl GlobalAlloc for Counting {
    unsafe fn alloc(&self, l: Layout) -> *mut u8 {
        let p = System.alloc(l);
        if !p.is_null() {
            bump(l.size() as isize);
        }
        p
    }
    unsafe fn dealloc(&self, p: *mut u8, l: Layout) {
        System.dealloc(p, l);
        bump(-(l.size() as isize));
    }
    unsafe fn alloc_zeroed(&self, l: Layout) -> *mut u8 {
        let p = System.alloc_zeroed(l);
        if !p.is_null() {
            bump(l.size() as isize);
        }
        p
    }
    unsafe fn realloc(&self, p: *mut u8, l: Layout, new: usize) -> *mut u8 {
        let q = System.realloc(p, l, new);
        if !q.is_null() {
            bump(new as isize - l.size() as isize);
        }
        q
    }
}

#[global_allocator]
static GLOBAL: Counting = Counting;

fn alloc_reset() {
    LIVE.with(|l| l.set(0));
    PEAK.with(|p| p.set(0));
}
fn alloc_peak() -> usize {
    PEAK.with(|p| p.get()).max(0) as usize
}

// ------------------------------------------------------------------------------------------
// build configuration
// ------------------------------------------------------------------------------------------

fn config_name() -> &'static str {
    match (cfg!(feature = "gvariant"), cfg!(feature = "option-as-array")) {
        (false, false) => "plain",
        (true, false) => "gv",
        (false, true) => "oaa",
        (true, true) => "gv-oaa",
    }
}

fn formats() -> Vec<Fmt> {
    if cfg!(feature = "gvariant") {
        vec![Fmt::DBus, Fmt::GV]
    } else {
        vec![Fmt::DBus]
    }
}

const ALPHA: [u8; 9] = [0x00, 0x01, 0x02, 0x04, 0x08, b'a', b'/', 0x80, 0xff];
/// signature-flavoured alphabet for inputs aimed at variants
const ALPHA_SIG: [u8; 10] = [0x00, 0x01, 0x02, 0x04, b'a', b'y', b's', b'v', b'(', b')'];

// ------------------------------------------------------------------------------------------
// decode targets
// ------------------------------------------------------------------------------------------

#[derive(Debug, Clone, PartialEq)]
enum Out {
    Ok,
    Err(String),
    Panic(String),
    ReencodePanic(String),
}

fn panic_site() -> String {
    let loc = vcommon::last_panic_location();
    // stable across checkouts: keep the path from the crate directory on
    for marker in ["zvariant_utils/", "zvariant/", "zbus_names/"] {
        if let Some(i) = loc.find(marker) {
            return loc[i..].to_string();
        }
    }
    loc
}

type Data<'a> = zvariant::serialized::Data<'a, 'a>;

fn typed<'d, T>(data: &'d Data<'d>) -> Out
where
    T: serde::Deserialize<'d> + zvariant::Type + serde::Serialize,
{
    alloc_reset();
    let r = vcommon::catch(|| data.deserialize::<T>());
    match r {
        Err(p) => Out::Panic(format!("{p} at {}", panic_site())),
        Ok(Err(e)) => Out::Err(err_class(&e)),
        Ok(Ok((v, _n))) => {
            let c = data.context();
            match vcommon::catch(|| zvariant::to_bytes(c, &v).map(|_| ())) {
                Err(p) => Out::ReencodePanic(format!("{p} at {}", panic_site())),
                Ok(_) => Out::Ok,
            }
        }
    }
}

/// `Value` target for an explicit signature.
fn dyn_value<'d>(data: &'d Data<'d>, sig: &zvariant::Signature) -> Out {
    alloc_reset();
    let r = vcommon::catch(|| data.deserialize_for_signature::<_, zvariant::Value<'d>>(sig));
    match r {
        Err(p) => Out::Panic(format!("{p} at {}", panic_site())),
        Ok(Err(e)) => Out::Err(err_class(&e)),
        Ok(Ok((v, _))) => {
            let c = data.context();
            match vcommon::catch(|| zvariant::to_bytes(c, &v).map(|_| ())) {
                Err(p) => Out::ReencodePanic(format!("{p} at {}", panic_site())),
                Ok(_) => Out::Ok,
            }
        }
    }
}

fn dyn_container<'d>(data: &'d Data<'d>, sig: &zvariant::Signature) -> Option<Out> {
    use zvariant::Signature as S;
    alloc_reset();
    let c = data.context();
    macro_rules! go {
        ($t:ty) => {{
            let r = vcommon::catch(|| data.deserialize_for_dynamic_signature::<_, $t>(sig));
            Some(match r {
                Err(p) => Out::Panic(format!("{p} at {}", panic_site())),
                Ok(Err(e)) => Out::Err(err_class(&e)),
                Ok(Ok((v, _))) => match vcommon::catch(|| zvariant::to_bytes(c, &v).map(|_| ())) {
                    Err(p) => Out::ReencodePanic(format!("{p} at {}", panic_site())),
                    Ok(_) => Out::Ok,
                },
            })
        }};
    }
    match sig {
        S::Array(_) => go!(zvariant::Array<'d>),
        S::Structure(_) => go!(zvariant::Structure<'d>),
        _ => None,
    }
}

macro_rules! t_id { ($t:ty) => { $t }; }
macro_rules! t_vec { ($t:ty) => { Vec<$t> }; }
macro_rules! t_tup { ($t:ty) => { ($t,) }; }
#[cfg(any(feature = "gvariant", feature = "option-as-array"))]
macro_rules! t_opt { ($t:ty) => { Option<$t> }; }

macro_rules! by_leaf {
    ($leaf:expr, $wrap:ident, $data:expr) => {
        match $leaf {
            Ty::Y => typed::<$wrap!(u8)>($data),
            Ty::B => typed::<$wrap!(bool)>($data),
            Ty::N => typed::<$wrap!(i16)>($data),
            Ty::Q => typed::<$wrap!(u16)>($data),
            Ty::I => typed::<$wrap!(i32)>($data),
            Ty::U => typed::<$wrap!(u32)>($data),
            Ty::X => typed::<$wrap!(i64)>($data),
            Ty::T => typed::<$wrap!(u64)>($data),
            Ty::D => typed::<$wrap!(f64)>($data),
            Ty::S => typed::<$wrap!(String)>($data),
            Ty::O => typed::<$wrap!(zvariant::OwnedObjectPath)>($data),
            Ty::G => typed::<$wrap!(zvariant::Signature)>($data),
            Ty::V => typed::<$wrap!(zvariant::Value<'_>)>($data),
            Ty::H => typed::<$wrap!(zvariant::OwnedFd)>($data),
            _ => unreachable!("by_leaf on a container"),
        }
    };
}

/// A type the inputs are decoded as, with its applicable routes.
struct Target {
    ty_sig: String,
    sig: zvariant::Signature,
    ty: Option<Ty>,
    /// extra bank entry index (typed route for 3-node types)
    bank: Option<usize>,
}

type HM<K, V> = std::collections::HashMap<K, V>;

const BANK: &[&str] = &[
    "a{sv}", "a{ys}", "a{sy}", "(sy)", "(ss)", "(ys)", "aay", "aas", "a(sy)", "(asy)", "av", "(vy)", "(sv)",
    "a{sas}", "(sss)",
    #[cfg(feature = "gvariant")]
    "mas",
    #[cfg(feature = "gvariant")]
    "ams",
    #[cfg(feature = "gvariant")]
    "(msy)",
];

fn bank_typed<'d>(i: usize, data: &'d Data<'d>) -> Out {
    use zvariant::Value as V;
    match BANK[i] {
        "a{sv}" => typed::<HM<String, V<'_>>>(data),
        "a{ys}" => typed::<HM<u8, String>>(data),
        "a{sy}" => typed::<HM<String, u8>>(data),
        "(sy)" => typed::<(String, u8)>(data),
        "(ss)" => typed::<(String, String)>(data),
        "(ys)" => typed::<(u8, String)>(data),
        "aay" => typed::<Vec<Vec<u8>>>(data),
        "aas" => typed::<Vec<Vec<String>>>(data),
        "a(sy)" => typed::<Vec<(String, u8)>>(data),
        "(asy)" => typed::<(Vec<String>, u8)>(data),
        "av" => typed::<Vec<V<'_>>>(data),
        "(vy)" => typed::<(V<'_>, u8)>(data),
        "(sv)" => typed::<(String, V<'_>)>(data),
        "a{sas}" => typed::<HM<String, Vec<String>>>(data),
        "(sss)" => typed::<(String, String, String)>(data),
        #[cfg(all(feature = "gvariant", not(feature = "option-as-array")))]
        "mas" => typed::<Option<Vec<String>>>(data),
        #[cfg(all(feature = "gvariant", not(feature = "option-as-array")))]
        "ams" => typed::<Vec<Option<String>>>(data),
        #[cfg(all(feature = "gvariant", not(feature = "option-as-array")))]
        "(msy)" => typed::<(Option<String>, u8)>(data),
        // with option-as-array `Option<T>` has an array signature; the dynamic routes still cover `m`
        _ => Out::Err("no-typed-target".into()),
    }
}

fn targets() -> Vec<Target> {
    let mut tys: Vec<Ty> = rv::all_types(2, cfg!(feature = "gvariant"));
    // maybe types exist only in gvariant builds (the signature parser rejects `m` otherwise)
    tys.retain(|t| cfg!(feature = "gvariant") || !t.contains(&|x| matches!(x, Ty::Maybe(_))));
    let mut out: Vec<Target> = tys
        .into_iter()
        .map(|t| Target {
            ty_sig: t.sig(),
            sig: rv::zsig(&t),
            ty: Some(t),
            bank: None,
        })
        .collect();
    for (i, s) in BANK.iter().enumerate() {
        out.push(Target {
            ty_sig: s.to_string(),
            sig: zvariant::Signature::try_from(*s).expect("bank signature"),
            ty: rv::parse_ty(s),
            bank: Some(i),
        });
    }
    out
}

const ROUTES: [&str; 3] = ["typed", "value-for-signature", "dynamic-container"];

/// Run route `r` of target `t` on `data`; `None` when the route does not apply.
fn run_route<'d>(t: &Target, r: usize, data: &'d Data<'d>) -> Option<Out> {
    match r {
        0 => {
            if let Some(b) = t.bank {
                return Some(bank_typed(b, data));
            }
            let ty = t.ty.as_ref()?;
            Some(match ty {
                Ty::Array(e) => by_leaf!(&**e, t_vec, data),
                Ty::Struct(fs) if fs.len() == 1 => by_leaf!(&fs[0], t_tup, data),
                #[cfg(all(feature = "gvariant", not(feature = "option-as-array")))]
                Ty::Maybe(e) => by_leaf!(&**e, t_opt, data),
                #[cfg(all(feature = "option-as-array", not(feature = "gvariant")))]
                Ty::Maybe(_) => return None,
                // with both features `Option<T>` is typed as an array; `mT` keeps its dynamic routes
                #[cfg(all(feature = "gvariant", feature = "option-as-array"))]
                Ty::Maybe(_) => return None,
                #[cfg(not(any(feature = "gvariant", feature = "option-as-array")))]
                Ty::Maybe(_) => return None,
                leaf if leaf.nodes() == 1 => by_leaf!(leaf, t_id, data),
                _ => return None,
            })
        }
        1 => Some(dyn_value(data, &t.sig)),
        2 => dyn_container(data, &t.sig),
        _ => None,
    }
}

/// `Option<T>` typed as an array (option-as-array builds): an extra typed route for `aT` targets.
#[cfg(feature = "option-as-array")]
fn run_option_as_array<'d>(t: &Target, data: &'d Data<'d>) -> Option<Out> {
    match t.ty.as_ref()? {
        Ty::Array(e) if e.nodes() == 1 => Some(by_leaf!(&**e, t_opt, data)),
        _ => None,
    }
}
#[cfg(not(feature = "option-as-array"))]
fn run_option_as_array<'d>(_t: &Target, _data: &'d Data<'d>) -> Option<Out> {
    None
}

// ------------------------------------------------------------------------------------------
// inputs
// ------------------------------------------------------------------------------------------

#[derive(Clone, Copy, PartialEq, Eq, Debug)]
enum Aim {
    /// every target
    All,
    /// the target with this index in `targets()`
    One(usize),
    /// the `v` target only
    Variant,
}

struct Input<'a> {
    section: &'static str,
    fmt: Fmt,
    be: bool,
    pos: usize,
    bytes: &'a [u8],
    aim: Aim,
}

fn strings_over(alpha: &[u8], max_len: usize, mut f: impl FnMut(&[u8])) {
    let n = vcommon::enumerate::count_strings(alpha.len(), max_len);
    let mut idx = vec![];
    let mut buf = vec![];
    for i in 0..n {
        vcommon::enumerate::nth_string(alpha.len(), i, &mut idx);
        buf.clear();
        buf.extend(idx.iter().map(|j| alpha[*j]));
        f(&buf);
    }
}

fn reference_bytes(v: &RV, fmt: Fmt, be: bool, pos: usize) -> Vec<u8> {
    match fmt {
        Fmt::DBus => crate::refdbus::encode(v, be, pos).buf,
        Fmt::GV => crate::refgv::serialize(v, be, pos),
    }
}

/// D-Bus variant holding a value of signature `sig` whose body is `body` (already aligned).
fn dbus_variant(sig: &[u8], body: &[u8]) -> Vec<u8> {
    let mut out = vec![sig.len().min(255) as u8];
    out.extend_from_slice(sig);
    out.push(0);
    while out.len() % 8 != 0 {
        out.push(0);
    }
    out.extend_from_slice(body);
    out
}

fn gv_variant(sig: &[u8], body: &[u8]) -> Vec<u8> {
    let mut out = body.to_vec();
    out.push(0);
    out.extend_from_slice(sig);
    out
}

fn bracket_signatures(len: usize) -> Vec<(String, Vec<u8>)> {
    let rep = |s: &str, n: usize| s.repeat(n).into_bytes();
    let mut out = vec![
        ("a*".to_string(), rep("a", len)),
        ("(*".to_string(), rep("(", len)),
        (")*".to_string(), rep(")", len)),
        ("{*".to_string(), rep("{", len)),
        ("}*".to_string(), rep("}", len)),
        ("a{*".to_string(), rep("a{", len / 2)),
        ("a{y*".to_string(), rep("a{y", len / 3)),
        ("v*".to_string(), rep("v", len)),
        ("m*".to_string(), rep("m", len)),
        ("y*".to_string(), rep("y", len)),
    ];
    // balanced / complete deep types
    let mut s = rep("a", len.saturating_sub(1));
    s.push(b'y');
    out.push(("a*y".to_string(), s));
    let k = len.saturating_sub(1) / 2;
    let mut s = rep("(", k);
    s.push(b'y');
    s.extend(rep(")", k));
    out.push(("(*y)*".to_string(), s));
    let k = len.saturating_sub(1) / 4;
    let mut s = rep("a{y", k);
    s.push(b'y');
    s.extend(rep("}", k));
    out.push(("a{y*y}*".to_string(), s));
    let mut s = rep("m", len.saturating_sub(1));
    s.push(b'y');
    out.push(("m*y".to_string(), s));
    let k = len.saturating_sub(1) / 2;
    let mut s = rep("a(", k);
    s.push(b'y');
    s.extend(rep(")", k));
    out.push(("a(*y)*".to_string(), s));
    out
}

/// Walk every input of this build in a fixed order. `f(index, input)`.
fn for_each_input(tier: vcommon::Tier, tgts: &[Target], mut f: impl FnMut(u64, &Input<'_>)) {
    let thorough = tier == vcommon::Tier::Thorough;
    let mut idx = 0u64;
    let mut emit = |i: &Input<'_>| {
        f(idx, i);
        idx += 1;
    };
    let fmts = formats();

    // (sections run in the order S4, S3, S2, S1: the inputs that can kill the process come first so that
    // restarting a child after a crash does not have to skip the bulk)
    let l1 = tier.pick(4, 6);

    // S4a: variant signatures of every bracket kind
    for fmt in &fmts {
        let lens: Vec<usize> = match fmt {
            Fmt::DBus => vec![255],
            // nothing bounds the signature length of a GVariant variant
            Fmt::GV => vec![255, 1000, 4000, 10_000, 100_000],
        };
        for len in lens {
            for (name, sig) in bracket_signatures(len) {
                // beyond 255 bytes: one body; 100 000 bytes for the plain array prefix only
                if len == 100_000 && name != "a*" {
                    continue;
                }
                let bodies: &[usize] = if len > 255 { &[64] } else { &[0, 8, 64] };
                for &body_len in bodies {
                    let body = vec![0u8; body_len];
                    let bytes = match fmt {
                        Fmt::DBus => dbus_variant(&sig, &body),
                        Fmt::GV => gv_variant(&sig, &body),
                    };
                    emit(&Input { section: "S4-bracket-signatures", fmt: *fmt, be: false, pos: 0, bytes: &bytes, aim: Aim::Variant });
                }
            }
        }
    }
    // S4b: variant signatures over a signature alphabet (every string ≤ 4), with three bodies
    let sig_alpha: Vec<u8> = b"ysva(){}mh".to_vec();
    for fmt in &fmts {
        strings_over(&sig_alpha, tier.pick(4, 5), |sig| {
            for body in [&[][..], &[0u8; 8][..], &[1u8, 0, 0, 0, 0, 0, 0, 0, 1, 0, 0, 0, b'a', 0, 0, 0][..]] {
                let bytes = match fmt {
                    Fmt::DBus => dbus_variant(sig, body),
                    Fmt::GV => gv_variant(sig, body),
                };
                emit(&Input { section: "S4-variant-signatures", fmt: *fmt, be: false, pos: 0, bytes: &bytes, aim: Aim::Variant });
            }
        });
    }
    // S4c: variant chains
    let mut depths: Vec<usize> = (1..=100).collect();
    depths.extend([1000, 10_000]);
    for fmt in &fmts {
        for d in &depths {
            let bytes = match fmt {
                Fmt::DBus => {
                    let mut b = vec![];
                    for _ in 0..d - 1 {
                        b.extend_from_slice(&[1, b'v', 0]);
                    }
                    b.extend_from_slice(&[1, b'y', 0, 7]);
                    b
                }
                Fmt::GV => {
                    let mut b = vec![7u8, 0, b'y'];
                    for _ in 0..d - 1 {
                        b.extend_from_slice(&[0, b'v']);
                    }
                    b
                }
            };
            emit(&Input { section: "S4-variant-chains", fmt: *fmt, be: false, pos: 0, bytes: &bytes, aim: Aim::Variant });
            // the same chain as the element of an array / field of a struct
            emit(&Input { section: "S4-variant-chains", fmt: *fmt, be: false, pos: 0, bytes: &bytes, aim: Aim::All });
        }
    }
    // S4d: GVariant framing offsets set to every byte value
    if fmts.contains(&Fmt::GV) {
        let strs = |xs: &[&str]| RV::Array(Ty::S, xs.iter().map(|x| RV::S(x.to_string())).collect());
        let ay = |n: usize| RV::Array(Ty::Y, vec![RV::Y(1); n]);
        let var = |v: RV| RV::V(Box::new((v.ty(), v)));
        let seeds: Vec<RV> = vec![
            strs(&["a", "bc"]),
            strs(&["", "", ""]),
            RV::Array(Ty::Array(Box::new(Ty::Y)), vec![ay(2), ay(0), ay(1)]),
            RV::Struct(vec![RV::S("ab".into()), RV::Y(1)]),
            RV::Struct(vec![RV::S("a".into()), RV::S("b".into()), RV::S("c".into())]),
            RV::Struct(vec![strs(&["x"]), RV::Y(2)]),
            RV::Dict(Ty::S, Ty::V, vec![(RV::S("k".into()), var(RV::U(5)))]),
            RV::Dict(Ty::S, Ty::Y, vec![(RV::S("k".into()), RV::Y(5)), (RV::S("l".into()), RV::Y(6))]),
            RV::Dict(Ty::S, Ty::Array(Box::new(Ty::S)), vec![(RV::S("k".into()), strs(&["v"]))]),
            RV::Array(Ty::V, vec![var(RV::Y(1)), var(RV::S("s".into()))]),
            RV::Maybe(Ty::Array(Box::new(Ty::S)), Some(Box::new(strs(&["q"])))),
            RV::Array(Ty::Maybe(Box::new(Ty::S)), vec![RV::Maybe(Ty::S, Some(Box::new(RV::S("z".into())))), RV::Maybe(Ty::S, None)]),
            RV::Struct(vec![RV::Maybe(Ty::S, Some(Box::new(RV::S("z".into())))), RV::Y(3)]),
        ];
        for seed in seeds {
            let wrapped = RV::V(Box::new((seed.ty(), seed.clone())));
            let ti = tgts.iter().position(|t| t.ty_sig == seed.ty().sig());
            for (value, aim) in [(wrapped, Aim::Variant), (seed.clone(), ti.map(Aim::One).unwrap_or(Aim::Variant))] {
                if aim == Aim::Variant && !matches!(value, RV::V(_)) {
                    continue;
                }
                let enc = crate::refgv::normal_form(&value, false);
                let mut m = enc.clone();
                // the framing offsets live in the tail; sweep the last 6 bytes through all values,
                // singly and (over the alphabet) in adjacent pairs
                let tail = enc.len().saturating_sub(6);
                for i in tail..enc.len() {
                    for b in 0..=255u8 {
                        m[i] = b;
                        emit(&Input { section: "S4-framing-offsets", fmt: Fmt::GV, be: false, pos: 0, bytes: &m, aim });
                    }
                    m[i] = enc[i];
                    if i + 1 < enc.len() {
                        for a in ALPHA {
                            for b in ALPHA {
                                m[i] = a;
                                m[i + 1] = b;
                                emit(&Input { section: "S4-framing-offsets", fmt: Fmt::GV, be: false, pos: 0, bytes: &m, aim });
                            }
                        }
                        m[i] = enc[i];
                        m[i + 1] = enc[i + 1];
                    }
                }
            }
        }
        // S4e: wide tuples of strings inside a variant, sizes around the offset-width thresholds
        for k in [2usize, 3, 64, 127, 128, 129, 130, 200, 253] {
            let mut sig = vec![b'('];
            sig.extend(std::iter::repeat(b's').take(k));
            sig.push(b')');
            let mut lens: Vec<usize> = (0..=10).collect();
            lens.extend(250..=262);
            lens.extend(380..=390);
            lens.extend(505..=520);
            for body_len in lens {
                for fill in ALPHA {
                    let bytes = gv_variant(&sig, &vec![fill; body_len]);
                    emit(&Input { section: "S4-wide-tuples", fmt: Fmt::GV, be: false, pos: 0, bytes: &bytes, aim: Aim::Variant });
                }
            }
        }
    }
    // S3: mutations of valid encodings
    let dom = rv::Domain { cap: 8, variant_payloads: rv::all_types(2, false), exotic_floats: false };
    let mut capped = false;
    let mutate = |section: &'static str, fmt: Fmt, be: bool, pos: usize, enc: &[u8], aim: Aim,
                      emit: &mut dyn FnMut(&Input<'_>)| {
        // the unmodified encoding, every truncation, every substitution
        for cut in 0..=enc.len() {
            emit(&Input { section, fmt, be, pos, bytes: &enc[..cut], aim });
        }
        let mut m = enc.to_vec();
        for i in 0..enc.len() {
            for a in ALPHA {
                if a == enc[i] {
                    continue;
                }
                m[i] = a;
                emit(&Input { section, fmt, be, pos, bytes: &m, aim });
                if thorough {
                    for j in (i + 1)..enc.len().min(i + 8) {
                        let keep = m[j];
                        for b in [0x00u8, 0x01, 0xff, b'a'] {
                            if b == keep {
                                continue;
                            }
                            m[j] = b;
                            emit(&Input { section, fmt, be, pos, bytes: &m, aim });
                        }
                        m[j] = keep;
                    }
                }
            }
            m[i] = enc[i];
        }
    };
    for (ti, t) in tgts.iter().enumerate() {
        let Some(ty) = &t.ty else { continue };
        for v in rv::values(ty, &dom, &mut capped) {
            for fmt in &fmts {
                if *fmt == Fmt::DBus && ty.contains(&|x| matches!(x, Ty::Maybe(_))) {
                    continue; // no D-Bus encoding exists
                }
                for (be, pos) in [(false, 0usize), (true, 0), (false, 3)] {
                    let enc = reference_bytes(&v, *fmt, be, pos);
                    mutate("S3-mutations", *fmt, be, pos, &enc, Aim::One(ti), &mut emit);
                }
            }
        }
    }
    // variant-wrapped values of every type with ≤ 3 nodes
    let dom3 = rv::Domain { cap: 4, variant_payloads: rv::all_types(1, false), exotic_floats: false };
    for ty in rv::all_types(3, cfg!(feature = "gvariant")) {
        let has_maybe = ty.contains(&|x| matches!(x, Ty::Maybe(_)));
        let mut vals = rv::values(&ty, &dom3, &mut capped);
        if !thorough && vals.len() > 3 {
            vals = vec![vals[0].clone(), vals[vals.len() / 2].clone(), vals[vals.len() - 1].clone()];
        }
        for v in vals {
            let wrapped = RV::V(Box::new((ty.clone(), v)));
            for fmt in &fmts {
                if *fmt == Fmt::DBus && has_maybe {
                    continue;
                }
                let enc = reference_bytes(&wrapped, *fmt, false, 0);
                mutate("S3-variant-mutations", *fmt, false, 0, &enc, Aim::Variant, &mut emit);
            }
        }
    }

    // S1: exhaustive strings over the byte alphabet
    for fmt in &fmts {
        for be in [false, true] {
            strings_over(&ALPHA, l1, |b| {
                emit(&Input { section: "S1-strings", fmt: *fmt, be, pos: 0, bytes: b, aim: Aim::All })
            });
        }
    }
    // S2: exhaustive strings over the signature-flavoured alphabet, for variants
    for fmt in &fmts {
        strings_over(&ALPHA_SIG, l1 + 1, |b| {
            emit(&Input { section: "S2-sig-strings", fmt: *fmt, be: false, pos: 0, bytes: b, aim: Aim::Variant })
        });
    }
}

// ------------------------------------------------------------------------------------------
// child
// ------------------------------------------------------------------------------------------

const BATCH: u64 = 512;
/// Allocation bound: 256 KiB + 1024 × input length. The dynamic `Value` representation costs 64 bytes
/// per decoded element (× 2 for `Vec` growth), so anything below a few hundred × the input is inherent;
/// only amplification by three orders of magnitude is flagged.
const ALLOC_BASE: usize = 256 * 1024;
const ALLOC_FACTOR: usize = 1024;

struct Part {
    evals: u64,
    inputs: u64,
    outcomes: BTreeMap<String, u64>,
    violations: Vec<J>,
    kept: BTreeMap<String, u32>,
    nontrivial: HashSet<u64>,
    nontrivial_new: Vec<u64>,
    samples: Vec<J>,
    max_peak: usize,
}

impl Part {
    fn new() -> Self {
        Part {
            evals: 0,
            inputs: 0,
            outcomes: BTreeMap::new(),
            violations: vec![],
            kept: BTreeMap::new(),
            nontrivial: HashSet::new(),
            nontrivial_new: vec![],
            samples: vec![],
            max_peak: 0,
        }
    }
    fn flush(&mut self) {
        let j = json!({
            "evals": self.evals, "inputs": self.inputs, "outcomes": self.outcomes,
            "violations": self.violations, "samples": self.samples,
            "nontrivial": self.nontrivial_new.iter().map(|h| format!("{h:x}")).collect::<Vec<_>>(),
            "max_peak": self.max_peak,
        });
        println!("PART {j}");
        self.evals = 0;
        self.inputs = 0;
        self.outcomes.clear();
        self.violations.clear();
        self.nontrivial_new.clear();
        self.samples.clear();
    }
    fn violation(&mut self, clause: &str, feats: &[(&str, String)], detail: String, replay: J) {
        let ident = format!("{clause}|{feats:?}");
        let n = self.kept.entry(ident).or_insert(0);
        *n += 1;
        if *n > 2 {
            // count it, keep no more artefacts of the same identity
            *self.outcomes.entry(format!("violating:{clause}")).or_insert(0) += 1;
            return;
        }
        *self.outcomes.entry(format!("violating:{clause}")).or_insert(0) += 1;
        let f: BTreeMap<&str, &String> = feats.iter().map(|(k, v)| (*k, v)).collect();
        self.violations.push(json!({"clause": clause, "features": f, "detail": detail, "replay": replay}));
    }
}

fn replay_payload(i: &Input<'_>, target: &str, route: &str) -> J {
    json!({"config": config_name(), "section": i.section, "format": i.fmt.name(), "be": i.be, "pos": i.pos,
           "bytes": vcommon::hex(i.bytes), "target": target, "route": route})
}

fn short_hex(b: &[u8]) -> String {
    crate::refgv::short_hex(b)
}

/// Evaluate one (input, target, route); `fine` prints a cursor line first.
#[allow(clippy::too_many_arguments)]
fn eval_one(
    part: &mut Part,
    idx: u64,
    inp: &Input<'_>,
    data: &Data<'_>,
    t: &Target,
    ti: usize,
    route: usize,
    fine: bool,
) -> bool {
    if fine {
        println!("CURSOR {idx} {ti} {route} {}", t.ty_sig);
    }
    let out = if route == 3 { run_option_as_array(t, data) } else { run_route(t, route, data) };
    let Some(out) = out else { return false };
    let peak = alloc_peak();
    part.evals += 1;
    part.max_peak = part.max_peak.max(peak);
    let rname = if route == 3 { "typed-option-as-array" } else { ROUTES[route] };
    let descr = || {
        format!(
            "[{}] {} {} pos={} {} bytes {} as `{}` via {}",
            config_name(),
            inp.fmt.name(),
            if inp.be { "BE" } else { "LE" },
            inp.pos,
            inp.bytes.len(),
            short_hex(inp.bytes),
            t.ty_sig,
            rname
        )
    };
    let base = |extra: Vec<(&'static str, String)>| {
        let mut f = vec![("format", inp.fmt.name().to_string()), ("config", config_name().to_string())];
        f.extend(extra);
        f
    };
    let cls = match &out {
        Out::Ok => "ok".to_string(),
        Out::Err(c) => format!("err:{c}"),
        Out::Panic(_) => "panic".into(),
        Out::ReencodePanic(_) => "reencode-panic".into(),
    };
    *part.outcomes.entry(format!("{}/{}", inp.fmt.name(), cls)).or_insert(0) += 1;
    match &out {
        Out::Panic(p) => {
            let site = p.rsplit(" at ").next().unwrap_or("").to_string();
            part.violation(
                "no-panic",
                &base(vec![("panic_at", site)]),
                format!("{}: decoder panicked: {p}", descr()),
                replay_payload(inp, &t.ty_sig, rname),
            );
        }
        Out::ReencodePanic(p) => {
            let site = p.rsplit(" at ").next().unwrap_or("").to_string();
            part.violation(
                "reencode-no-panic",
                &base(vec![("panic_at", site)]),
                format!("{}: decoded fine, re-encoding panicked: {p}", descr()),
                replay_payload(inp, &t.ty_sig, rname),
            );
        }
        _ => {}
    }
    if peak > ALLOC_BASE + ALLOC_FACTOR * inp.bytes.len() {
        part.violation(
            "bounded-allocation",
            &base(vec![("target_kind", target_kind(t)), ("section", inp.section.to_string())]),
            format!("{}: peak allocation {} bytes for a {}-byte input", descr(), peak, inp.bytes.len()),
            replay_payload(inp, &t.ty_sig, rname),
        );
    }
    matches!(out, Out::Ok)
}

fn target_kind(t: &Target) -> String {
    match t.ty_sig.as_bytes().first() {
        Some(b'a') if t.ty_sig.starts_with("a{") => "dict".into(),
        Some(b'a') => "array".into(),
        Some(b'(') => "struct".into(),
        Some(b'm') => "maybe".into(),
        Some(b'v') => "variant".into(),
        _ => "basic".into(),
    }
}

fn eval_input(part: &mut Part, idx: u64, inp: &Input<'_>, tgts: &[Target], vi: usize, fds: &FdTable, fine: bool, resume_after: Option<(usize, usize)>) {
    use std::os::fd::AsFd;
    let Some(c) = ctx(inp.fmt, inp.be, inp.pos) else { return };
    let data: Data<'_> = zvariant::serialized::Data::new_borrowed_fds(inp.bytes, c, fds.fds.iter().map(|f| f.as_fd()));
    part.inputs += 1;
    if fine {
        println!("INPUT {idx} {}", json!({"section": inp.section, "format": inp.fmt.name(), "be": inp.be, "pos": inp.pos,
            "bytes": vcommon::hex(inp.bytes), "config": config_name()}));
    }
    let mut any_ok = false;
    let range: Vec<usize> = match inp.aim {
        Aim::All => (0..tgts.len()).collect(),
        Aim::One(i) => vec![i],
        Aim::Variant => vec![vi],
    };
    for ti in range {
        for route in 0..4 {
            if let Some(o) = resume_after {
                if (ti, route) <= o {
                    continue;
                }
            }
            // D-Bus has no maybe: those targets still run (the decoder has to answer with an error)
            any_ok |= eval_one(part, idx, inp, &data, &tgts[ti], ti, route, fine);
        }
    }
    if any_ok {
        let h = hash64(&(config_name(), inp.bytes, inp.fmt.name(), inp.be, inp.pos));
        if part.nontrivial.insert(h) {
            part.nontrivial_new.push(h);
        }
        if part.samples.len() < 2 && idx % 977 == 0 {
            part.samples.push(json!({"config": config_name(), "section": inp.section, "format": inp.fmt.name(),
                "bytes": short_hex(inp.bytes), "decoded_by_some_target": true}));
        }
    }
}

fn arg_after<'a>(extra: &'a [String], key: &str) -> Option<&'a str> {
    extra.iter().position(|a| a == key).and_then(|i| extra.get(i + 1)).map(|s| s.as_str())
}

fn child_main(args: &Args) -> i32 {
    let shard = arg_after(&args.extra, "--child").unwrap_or("0/1");
    let (k, n): (u64, u64) = {
        let mut it = shard.split('/');
        (
            it.next().and_then(|s| s.parse().ok()).unwrap_or(0),
            it.next().and_then(|s| s.parse().ok()).unwrap_or(1),
        )
    };
    let from: u64 = arg_after(&args.extra, "--from").and_then(|s| s.parse().ok()).unwrap_or(0);
    // single-step range [a, b): cursor lines per (input, target, route)
    let fine: Option<(u64, u64)> = arg_after(&args.extra, "--fine").and_then(|s| {
        let mut it = s.split(',');
        Some((it.next()?.parse().ok()?, it.next()?.parse().ok()?))
    });
    // skip everything up to and including this (input, target, route) inside the fine range
    let skip_to: Option<(u64, usize, usize)> = arg_after(&args.extra, "--after").and_then(|s| {
        let mut it = s.split(',');
        Some((it.next()?.parse().ok()?, it.next()?.parse().ok()?, it.next()?.parse().ok()?))
    });
    let tier = args.tier;
    let worker = std::thread::Builder::new()
        .name("c04-decode".into())
        .stack_size(2 << 20)
        .spawn(move || {
            vcommon::quiet_panics();
            let tgts = targets();
            let vi = tgts.iter().position(|t| t.ty_sig == "v").expect("v target");
            let fds = FdTable::new(2);
            let mut part = Part::new();
            println!("HELLO {} targets={}", config_name(), tgts.len());
            let mut last_cursor = u64::MAX;
            for_each_input(tier, &tgts, |idx, inp| {
                if idx % n != k || idx < from {
                    return;
                }
                let is_fine = fine.map(|(a, b)| idx >= a && idx < b).unwrap_or(false);
                if !is_fine && (last_cursor == u64::MAX || idx >= last_cursor + BATCH * n) {
                    part.flush();
                    println!("CURSOR {idx}");
                    last_cursor = idx;
                }
                if is_fine {
                    if let Some((si, sti, sr)) = skip_to {
                        if idx == si {
                            // resume inside this input after the crashing (target, route)
                            eval_input(&mut part, idx, inp, &tgts, vi, &fds, true, Some((sti, sr)));
                            part.flush();
                            return;
                        }
                    }
                }
                eval_input(&mut part, idx, inp, &tgts, vi, &fds, is_fine, None);
                if is_fine {
                    part.flush();
                }
            });
            part.flush();
            println!("DONE {}", config_name());
        })
        .expect("spawn worker");
    match worker.join() {
        Ok(()) => 0,
        Err(e) => {
            let msg = e.downcast_ref::<String>().cloned().or_else(|| e.downcast_ref::<&str>().map(|s| s.to_string())).unwrap_or_default();
            println!("WORKER-PANIC {msg} at {}", vcommon::last_panic_location());
            3
        }
    }
}

/// Decode exactly one (input, target, route) and print what happens (used by --replay, in a child).
fn child_one(args: &Args) -> i32 {
    let Some(spec) = arg_after(&args.extra, "--one") else { return 2 };
    let r: J = serde_json::from_str(spec).unwrap_or(J::Null);
    let bytes = vcommon::unhex(r["bytes"].as_str().unwrap_or(""));
    let fmt = r["format"].as_str().and_then(Fmt::parse).unwrap_or(Fmt::DBus);
    let be = r["be"].as_bool().unwrap_or(false);
    let pos = r["pos"].as_u64().unwrap_or(0) as usize;
    let target = r["target"].as_str().unwrap_or("v").to_string();
    let route = r["route"].as_str().unwrap_or("typed").to_string();
    let worker = std::thread::Builder::new()
        .stack_size(2 << 20)
        .spawn(move || {
            vcommon::quiet_panics();
            let tgts = targets();
            let Some(ti) = tgts.iter().position(|t| t.ty_sig == target) else {
                println!("observed: this build ({}) has no target `{target}`", config_name());
                return 2;
            };
            let ri = match route.as_str() {
                "typed" => 0,
                "value-for-signature" => 1,
                "dynamic-container" => 2,
                _ => 3,
            };
            let fds = FdTable::new(2);
            let inp = Input { section: "replay", fmt, be, pos, bytes: &bytes, aim: Aim::One(ti) };
            let mut part = Part::new();
            let Some(c) = ctx(fmt, be, pos) else {
                println!("observed: this build ({}) has no {} format", config_name(), fmt.name());
                return 2;
            };
            use std::os::fd::AsFd;
            let data: Data<'_> = zvariant::serialized::Data::new_borrowed_fds(&bytes[..], c, fds.fds.iter().map(|f| f.as_fd()));
            println!("decoding {} bytes {} as `{}` via {} [{} {} pos={}] in build {}", bytes.len(), short_hex(&bytes),
                tgts[ti].ty_sig, route, fmt.name(), if be { "BE" } else { "LE" }, pos, config_name());
            let ok = eval_one(&mut part, 0, &inp, &data, &tgts[ti], ti, ri, false);
            println!("peak allocation: {} bytes (bound {})", part.max_peak, ALLOC_BASE + ALLOC_FACTOR * bytes.len());
            if part.violations.is_empty() {
                println!("observed: {} — no panic, allocation within the bound", if ok { "decoded and re-encoded" } else { "decoder returned an error" });
                0
            } else {
                for v in &part.violations {
                    println!("observed: VIOLATION {} — {}", v["clause"].as_str().unwrap_or(""), v["detail"].as_str().unwrap_or(""));
                }
                1
            }
        })
        .expect("spawn");
    worker.join().unwrap_or(3)
}

// ------------------------------------------------------------------------------------------
// parent
// ------------------------------------------------------------------------------------------

fn zv_bins() -> Vec<(String, String)> {
    let mut out = vec![];
    if let Ok(s) = std::env::var("ZV_BINS") {
        for item in s.split(',').filter(|x| !x.is_empty()) {
            if let Some((k, v)) = item.split_once('=') {
                out.push((k.to_string(), v.to_string()));
            }
        }
    }
    out
}

struct ChildRun {
    status: std::process::ExitStatus,
    last_cursor: Option<(u64, Option<(usize, usize)>)>,
    /// signature of the target named by the last fine cursor
    last_target: String,
    /// payload of the last `INPUT` line (fine mode)
    last_input: J,
    done: bool,
    stderr_tail: String,
}

fn run_child(bin: &str, tier: vcommon::Tier, extra: &[String], mut on_part: impl FnMut(&J), hello: &mut Option<String>) -> ChildRun {
    use std::io::{BufRead, BufReader, Read};
    use std::process::{Command, Stdio};
    let errpath = vcommon::verif_root().join(".run");
    let _ = std::fs::create_dir_all(&errpath);
    let errfile = errpath.join(format!("c04-{}-{:x}.err", std::process::id(), hash64(&(bin, extra))));
    let ef = std::fs::File::create(&errfile).unwrap_or_else(|e| vcommon::machinery_failure(&format!("C04: {e}")));
    let mut child = Command::new(bin)
        .arg("C04")
        .arg("--tier")
        .arg(tier.as_str())
        .args(extra)
        .stdin(Stdio::null())
        .stdout(Stdio::piped())
        .stderr(Stdio::from(ef))
        .spawn()
        .unwrap_or_else(|e| vcommon::machinery_failure(&format!("C04: cannot start {bin}: {e}")));
    let out = child.stdout.take().unwrap();
    let mut last_cursor = None;
    let mut last_target = String::new();
    let mut last_input = J::Null;
    let mut done = false;
    for line in BufReader::new(out).lines() {
        let Ok(line) = line else { break };
        if let Some(rest) = line.strip_prefix("CURSOR ") {
            let mut it = rest.split(' ');
            let idx: u64 = it.next().and_then(|s| s.parse().ok()).unwrap_or(0);
            let t = it.next().and_then(|s| s.parse().ok());
            let r = it.next().and_then(|s| s.parse().ok());
            last_target = it.next().unwrap_or("").to_string();
            last_cursor = Some((idx, t.zip(r)));
        } else if let Some(rest) = line.strip_prefix("INPUT ") {
            if let Some((_, j)) = rest.split_once(' ') {
                last_input = serde_json::from_str(j).unwrap_or(J::Null);
            }
        } else if let Some(rest) = line.strip_prefix("PART ") {
            if let Ok(j) = serde_json::from_str::<J>(rest) {
                on_part(&j);
            }
        } else if let Some(rest) = line.strip_prefix("HELLO ") {
            *hello = Some(rest.to_string());
        } else if line.starts_with("DONE") {
            done = true;
        } else if line.starts_with("WORKER-PANIC") {
            vcommon::machinery_failure(&format!("C04: harness bug in child {bin} {extra:?}: {line}"));
        }
    }
    let status = child.wait().unwrap_or_else(|e| vcommon::machinery_failure(&format!("C04: wait: {e}")));
    let mut tail = String::new();
    if let Ok(mut f) = std::fs::File::open(&errfile) {
        let _ = f.read_to_string(&mut tail);
    }
    let _ = std::fs::remove_file(&errfile);
    let tail: String = tail.lines().rev().take(4).collect::<Vec<_>>().into_iter().rev().collect::<Vec<_>>().join(" | ");
    ChildRun { status, last_cursor, last_target, last_input, done, stderr_tail: tail }
}

fn crash_kind(run: &ChildRun) -> String {
    use std::os::unix::process::ExitStatusExt;
    if run.stderr_tail.contains("overflowed its stack") || run.stderr_tail.contains("stack overflow") {
        return "stack-overflow".into();
    }
    if run.stderr_tail.contains("memory allocation of") {
        return "allocation-failure-abort".into();
    }
    match run.status.signal() {
        Some(s) => format!("signal-{s}"),
        None => format!("exit-{}", run.status.code().unwrap_or(-1)),
    }
}

fn merge_part(report: &Report, j: &J, nontrivial: &std::sync::atomic::AtomicU64, max_peak: &std::sync::atomic::AtomicU64) {
    use std::sync::atomic::Ordering;
    report.eval(j["evals"].as_u64().unwrap_or(0));
    report.add("inputs", j["inputs"].as_u64().unwrap_or(0));
    let hs: Vec<u64> = j["nontrivial"]
        .as_array()
        .into_iter()
        .flatten()
        .filter_map(|h| u64::from_str_radix(h.as_str()?, 16).ok())
        .collect();
    nontrivial.fetch_add(hs.len() as u64, Ordering::Relaxed);
    report.nontrivial_many(hs);
    max_peak.fetch_max(j["max_peak"].as_u64().unwrap_or(0), Ordering::Relaxed);
    if let Some(o) = j["outcomes"].as_object() {
        for (k, n) in o {
            report.outcome_n(k, n.as_u64().unwrap_or(0));
        }
    }
    for s in j["samples"].as_array().into_iter().flatten() {
        report.sample(s.clone());
    }
    for v in j["violations"].as_array().into_iter().flatten() {
        let mut viol = Violation::new(
            v["clause"].as_str().unwrap_or("?"),
            v["detail"].as_str().unwrap_or("").to_string(),
            v["replay"].clone(),
        );
        if let Some(f) = v["features"].as_object() {
            for (k, val) in f {
                viol = viol.feat(k, val.as_str().unwrap_or(""));
            }
        }
        report.violation(viol);
    }
}

fn replay(path: &str) -> i32 {
    let art = vcommon::load_replay(path);
    let r = &art["replay"];
    let config = r["config"].as_str().unwrap_or("gv");
    let bins = zv_bins();
    let bin = bins
        .iter()
        .find(|(k, _)| k == config)
        .map(|(_, v)| v.clone())
        .or_else(|| {
            if config == config_name() {
                std::env::current_exe().ok().map(|p| p.display().to_string())
            } else {
                None
            }
        })
        .unwrap_or_else(|| {
            vcommon::machinery_failure(&format!(
                "C04 replay: the `{config}` build of zv is not available (run through ./check C04 --replay <path>, which builds all four)"
            ))
        });
    println!("replay C04 in a child process of the `{config}` build");
    let st = std::process::Command::new(&bin)
        .arg("C04")
        .arg("--one")
        .arg(r.to_string())
        .status()
        .unwrap_or_else(|e| vcommon::machinery_failure(&format!("C04 replay: {e}")));
    use std::os::unix::process::ExitStatusExt;
    match (st.code(), st.signal()) {
        (Some(0), _) => 0,
        (Some(1), _) => 1,
        (Some(c), _) => {
            println!("observed: child exited with status {c}");
            1
        }
        (None, Some(s)) => {
            println!("observed: child was killed by signal {s} (abort / stack overflow) — VIOLATION no-abort");
            1
        }
        _ => 1,
    }
}

pub fn main(args: &Args) -> i32 {
    if args.extra.iter().any(|a| a == "--child") {
        return child_main(args);
    }
    if args.extra.iter().any(|a| a == "--one") {
        return child_one(args);
    }
    if let Some(p) = &args.replay {
        return replay(p);
    }
    let report = Report::new("C04", args.tier, args.seed, "exploration");
    let mut bins = zv_bins();
    if bins.is_empty() {
        // stand-alone run of one binary: check this build only
        let me = std::env::current_exe().map(|p| p.display().to_string()).unwrap_or_default();
        bins.push((config_name().to_string(), me));
        report.cap(format!("ZV_BINS not set: only the `{}` build was checked (use ./check C04)", config_name()));
    }
    for want in ["plain", "gv", "oaa", "gv-oaa"] {
        if !bins.iter().any(|(k, _)| k == want) {
            report.cap(format!("feature build `{want}` not provided"));
        }
    }
    let workers = vcommon::n_workers();
    let shards = (workers / bins.len()).max(1) as u64;
    let nontrivial = std::sync::atomic::AtomicU64::new(0);
    let max_peak = std::sync::atomic::AtomicU64::new(0);
    let crashes = std::sync::atomic::AtomicU64::new(0);
    let jobs: Vec<(String, String, u64)> = bins
        .iter()
        .flat_map(|(c, b)| (0..shards).map(move |k| (c.clone(), b.clone(), k)))
        .collect();
    let tier = args.tier;
    std::thread::scope(|s| {
        for (config, bin, k) in &jobs {
            let report = &report;
            let nontrivial = &nontrivial;
            let max_peak = &max_peak;
            let crashes = &crashes;
            s.spawn(move || {
                let mut from = 0u64;
                let mut fine: Option<(u64, u64)> = None;
                let mut after: Option<(u64, usize, usize)> = None;
                let mut n_crashes = 0;
                loop {
                    let mut extra = vec!["--child".to_string(), format!("{k}/{shards}"), "--from".into(), from.to_string()];
                    if let Some((a, b)) = fine {
                        extra.push("--fine".into());
                        extra.push(format!("{a},{b}"));
                    }
                    if let Some((i, t, r)) = after {
                        extra.push("--after".into());
                        extra.push(format!("{i},{t},{r}"));
                    }
                    let mut hello = None;
                    let run = run_child(bin, tier, &extra, |j| merge_part(report, j, nontrivial, max_peak), &mut hello);
                    if let Some(h) = &hello {
                        if !h.starts_with(&format!("{config} ")) {
                            vcommon::machinery_failure(&format!("C04: binary for `{config}` reports build `{h}`"));
                        }
                    }
                    if run.done && run.status.success() {
                        break;
                    }
                    // abnormal end
                    let Some((idx, tr)) = run.last_cursor else {
                        vcommon::machinery_failure(&format!(
                            "C04: child {config} {k}/{shards} died before its first cursor: {:?} {}",
                            run.status, run.stderr_tail
                        ));
                    };
                    match tr {
                        None => {
                            // coarse cursor: re-run this batch in single-step mode
                            from = idx;
                            fine = Some((idx, idx + BATCH * shards));
                            after = None;
                        }
                        Some((ti, route)) => {
                            n_crashes += 1;
                            crashes.fetch_add(1, std::sync::atomic::Ordering::Relaxed);
                            let kind = crash_kind(&run);
                            let mut p = run.last_input.clone();
                            let rname = if route == 3 { "typed-option-as-array" } else { ROUTES[route.min(2)] };
                            p["target"] = json!(run.last_target);
                            p["route"] = json!(rname);
                            let d = json!({"len": p["bytes"].as_str().map(|h| h.len() / 2).unwrap_or(0), "section": p["section"]});
                            let p = &p;
                            report.outcome(&format!("{}/child-died:{kind}", p["format"].as_str().unwrap_or("?")));
                            report.violation(
                                Violation::new(
                                    "no-abort",
                                    format!(
                                        "[{config}] {} {} bytes {} as `{}` via {}: the decoding process died ({kind}; {:?}; stderr: {})",
                                        p["format"].as_str().unwrap_or("?"),
                                        d["len"].as_u64().unwrap_or(0),
                                        short_hex(&vcommon::unhex(p["bytes"].as_str().unwrap_or(""))),
                                        p["target"].as_str().unwrap_or("?"),
                                        p["route"].as_str().unwrap_or("?"),
                                        run.status,
                                        run.stderr_tail
                                    ),
                                    p.clone(),
                                )
                                .feat("format", p["format"].as_str().unwrap_or("?"))
                                .feat("config", config)
                                .feat("death", &kind)
                                .feat("section", d["section"].as_str().unwrap_or("?")),
                            );
                            from = idx;
                            if fine.map(|(_, b)| idx >= b).unwrap_or(true) {
                                fine = Some((idx, idx + 1));
                            }
                            after = Some((idx, ti, route));
                            if n_crashes > 60 {
                                report.cap(format!("child {config} {k}/{shards}: more than 60 crashes, shard abandoned at input {idx}"));
                                break;
                            }
                        }
                    }
                }
            });
        }
    });
    report.set("max_peak_allocation_bytes", json!(max_peak.load(std::sync::atomic::Ordering::Relaxed)));
    report.set("child_crashes", json!(crashes.load(std::sync::atomic::Ordering::Relaxed)));
    report.set("builds", json!(bins.iter().map(|(k, _)| k.clone()).collect::<Vec<_>>()));
    report.set("shards_per_build", json!(shards));
    report.assume("children decode on a 2 MiB thread stack; a panic is caught per case, any other death of the child is attributed to the (input, target) named by the last cursor line");
    report.assume("allocation is measured per decode by a counting global allocator (thread-local peak of live bytes since the decode started); bound 256 KiB + 1024 × input length (the dynamic Value tree inherently costs up to 128 bytes per input byte)");
    if args.tier == vcommon::Tier::Quick {
        report.cap("quick tier: strings ≤ 4 (≤ 5 for the signature alphabet), three values per type in the variant-mutation corpus, single substitutions only");
    }
    report.finish(
        "every (input, target type, route) over the four feature builds; inputs = exhaustive strings, mutations/truncations of valid encodings, structural stress; non-trivial = an input that at least one target decodes successfully (distinct per build)",
        true,
    )
}
