//! C09 — derived and built-in `Type` signatures match what is serialized.
//!
//! Space (programs × inputs): every type of the generated bank (`typebank.rs`, written by
//! `engines/gen/types.py`: an enumerated grammar of derived structs / tuple structs / newtypes /
//! unit and data-carrying enums / dict-structs / std, net and time impls, nesting depth ≤ 2) ×
//! every value the generator listed for it × both byte orders × a set of start offsets
//! (alignment positions).
//!
//! Oracle, per (type, value, byte order, offset):
//! * `signature-as-documented`  `T::SIGNATURE` is the signature the documented mapping rules give
//!   (computed by the generator, not by zvariant);
//! * `bytes-conform-to-declared-signature`  the reference D-Bus decoder accepts
//!   `to_bytes(ctxt, &v)` under `T::SIGNATURE` and consumes every byte;
//! * `decoded-value`  what it decodes is the value tree predicted by the generator;
//! * `round-trip`  `from_bytes(to_bytes(v)) == v`, consuming every byte.
//!
//! `Option<T>` entries exist only in the `option-as-array` build; the main binary runs them in the
//! `gv-oaa` binary (`ZV_BINS`) as a child (`--child`) and merges the JSON the child prints.

use std::collections::{BTreeMap, BTreeSet};

use serde::{de::DeserializeOwned, Serialize};
use serde_json::{json, Value as J};
use vcommon::{catch, hash64, hex, Args, Report, Tier, Violation};
use zvariant::{serialized::Context, to_bytes, Type, BE, LE};

use crate::{
    refdbus,
    rv::{parse_ty, rv_eq, RV},
    typebank::{self, Meta, Visitor},
};

#[derive(Clone)]
struct Filter {
    index: usize,
    value: usize,
    be: bool,
    offset: usize,
}

/// Everything a run observes; applied to the `Report` at the end (or printed by the child).
#[derive(Default)]
struct Acc {
    evals: u64,
    nontrivial: BTreeSet<u64>,
    outcomes: BTreeMap<String, u64>,
    samples: Vec<J>,
    violations: Vec<Violation>,
    violating_cases: u64,
}

impl Acc {
    fn eval(&mut self, n: u64) {
        self.evals += n;
    }
    fn nontrivial(&mut self, h: u64) {
        self.nontrivial.insert(h);
    }
    fn outcome(&mut self, class: &str) {
        *self.outcomes.entry(class.to_string()).or_insert(0) += 1;
    }
    fn sample(&mut self, v: J) {
        if self.samples.len() < 12 {
            self.samples.push(v);
        }
    }
    fn violation(&mut self, v: Violation) {
        self.violating_cases += 1;
        let same = self.violations.iter().filter(|o| o.clause == v.clause && o.features == v.features).count();
        if same < 3 && self.violations.len() < 1500 {
            self.violations.push(v);
        }
    }
    fn has_violations(&self) -> bool {
        self.violating_cases > 0
    }
    fn to_json(&self) -> J {
        json!({
            "evals": self.evals,
            "nontrivial": self.nontrivial.iter().map(|h| format!("{h:016x}")).collect::<Vec<_>>(),
            "outcomes": self.outcomes,
            "samples": self.samples,
            "violating_cases": self.violating_cases,
            "violations": self.violations.iter().map(|v| json!({
                "clause": v.clause, "features": v.features, "detail": v.detail, "replay": v.replay,
            })).collect::<Vec<_>>(),
        })
    }
    fn merge_json(&mut self, j: &J) {
        self.evals += j["evals"].as_u64().unwrap_or(0);
        for h in j["nontrivial"].as_array().into_iter().flatten() {
            if let Some(h) = h.as_str().and_then(|s| u64::from_str_radix(s, 16).ok()) {
                self.nontrivial.insert(h);
            }
        }
        for (k, n) in j["outcomes"].as_object().into_iter().flatten() {
            *self.outcomes.entry(k.clone()).or_insert(0) += n.as_u64().unwrap_or(0);
        }
        for smp in j["samples"].as_array().into_iter().flatten().take(3) {
            // make room for a few Option<..> samples
            if self.samples.len() >= 12 {
                self.samples.pop();
            }
            self.samples.insert(0, smp.clone());
        }
        self.violating_cases += j["violating_cases"].as_u64().unwrap_or(0);
        for v in j["violations"].as_array().into_iter().flatten() {
            let mut viol = Violation::new(v["clause"].as_str().unwrap_or("?"), v["detail"].as_str().unwrap_or(""), v["replay"].clone());
            for (k, x) in v["features"].as_object().into_iter().flatten() {
                viol = viol.feat(k, x.as_str().unwrap_or(""));
            }
            self.violations.push(viol);
        }
    }
    fn apply(self, report: &Report) {
        report.eval(self.evals);
        report.nontrivial_many(self.nontrivial);
        for (k, n) in &self.outcomes {
            report.outcome_n(k, *n);
        }
        for smp in self.samples {
            report.sample(smp);
        }
        report.set("violating_cases_seen", json!(self.violating_cases));
        for v in self.violations {
            report.violation(v);
        }
    }
}

struct Run {
    acc: Acc,
    offsets: Vec<usize>,
    /// run only entries that exist solely in the option-as-array build
    only_oaa: bool,
    filter: Option<Filter>,
    verbose: bool,
    programs: u64,
    derived: u64,
    bank_types: u64,
    capped_types: u64,
    values: u64,
    kinds: BTreeSet<String>,
    /// (expected signature, bytes of one LE/offset-0 encoding) of the previous entry: used as the
    /// negative control (decode these bytes under *this* entry's signature)
    prev: Option<(String, Vec<u8>)>,
    sample_kinds: BTreeSet<String>,
}

/// Largest number of elements of any array / dict inside a value tree, as a class.
fn max_array_len(rv: &RV) -> usize {
    match rv {
        RV::Array(_, xs) => xs.iter().map(max_array_len).max().unwrap_or(0).max(xs.len()),
        RV::Dict(_, _, xs) => xs
            .iter()
            .map(|(k, v)| max_array_len(k).max(max_array_len(v)))
            .max()
            .unwrap_or(0)
            .max(xs.len()),
        RV::Struct(xs) => xs.iter().map(max_array_len).max().unwrap_or(0),
        RV::V(b) => max_array_len(&b.1),
        RV::Maybe(_, Some(x)) => max_array_len(x),
        _ => 0,
    }
}

struct Case<'a> {
    meta: &'a Meta,
    value: usize,
    be: bool,
    offset: usize,
    expected: Option<&'a RV>,
}

/// A violation with its narrow identity: the oracle clause plus
/// * `kind`: the kind of the outermost type constructor,
/// * `stage`: where the disagreement shows (signature / serialize / conformance / value / deserialize / compare),
/// * `max_array_len`: 0, 1 or 2+ (largest array or dict in the value),
/// * one `tag_<t>=true` per structural tag the generator attached to the type (e.g. a data enum as
///   array element, a newtype variant with a structure payload, a `PhantomData` member).
fn violation(c: &Case<'_>, clause: &str, stage: &str, what: String, extra: J) -> Violation {
    let meta = c.meta;
    let mut v = Violation::new(
        clause,
        format!(
            "type #{} `{}` [{}] value #{} {} offset {}: {}",
            meta.index,
            meta.rust,
            meta.shape,
            c.value,
            if c.be { "BE" } else { "LE" },
            c.offset,
            what
        ),
        json!({
            "index": meta.index, "value": c.value, "be": c.be, "offset": c.offset,
            "rust": meta.rust, "shape": meta.shape, "definition": meta.definition,
            "expected_signature": meta.expected_signature, "observed": extra,
        }),
    )
    .feat("kind", meta.kind)
    .feat("stage", stage)
    .feat(
        "max_array_len",
        match c.expected.map(max_array_len).unwrap_or(0) {
            0 => "0",
            1 => "1",
            _ => "2+",
        },
    );
    for t in meta.tags.split(',').filter(|t| !t.is_empty()) {
        v = v.feat(&format!("tag_{t}"), "true");
    }
    v
}

/// The type-specific operations, behind `dyn` so that the checking logic is compiled once and not
/// once per bank type.
struct Ops<'a> {
    signature: &'a dyn Fn() -> String,
    expected: &'a [RV],
    debug: &'a dyn Fn(usize) -> String,
    ser: &'a dyn Fn(usize, bool, usize) -> zvariant::Result<Vec<u8>>,
    /// deserialize; returns (equal to the original value, Debug of the result, bytes consumed)
    back: &'a dyn Fn(usize, &[u8], bool, usize) -> zvariant::Result<(bool, String, usize)>,
}

fn ctxt(be: bool, offset: usize) -> Context {
    if be {
        Context::new_dbus(BE, offset)
    } else {
        Context::new_dbus(LE, offset)
    }
}

impl Visitor for Run {
    fn visit<T>(&mut self, meta: &Meta, values: fn() -> Vec<(T, RV)>)
    where
        T: Serialize + DeserializeOwned + Type + PartialEq + std::fmt::Debug + Clone,
    {
        if self.only_oaa && !meta.oaa {
            return;
        }
        if let Some(f) = &self.filter {
            if f.index != meta.index {
                return;
            }
        }
        let (vs, expected): (Vec<T>, Vec<RV>) = values().into_iter().unzip();
        let ops = Ops {
            signature: &|| T::SIGNATURE.to_string(),
            expected: &expected,
            debug: &|i| format!("{:?}", vs[i]),
            ser: &|i, be, offset| to_bytes(ctxt(be, offset), &vs[i]).map(|d| d.bytes().to_vec()),
            back: &|i, bytes, be, offset| {
                let data = zvariant::serialized::Data::new(bytes.to_vec(), ctxt(be, offset));
                data.deserialize::<T>().map(|(t, n)| (t == vs[i], format!("{t:?}"), n))
            },
        };
        self.check_entry(meta, &ops);
    }
}

impl Run {
    fn check_entry(&mut self, meta: &Meta, ops: &Ops<'_>) {
        self.bank_types += 1;
        if !meta.definition.is_empty() {
            // a generated program: one or more generated definitions plus the type built from them
            self.programs += 1;
        }
        if meta.derived {
            self.derived += 1;
        }
        if meta.capped {
            self.capped_types += 1;
        }
        self.kinds.insert(meta.kind.to_string());
        let type_case = Case { meta, value: 0, be: false, offset: 0, expected: None };

        self.acc.eval(1);
        let declared = match catch(|| (ops.signature)()) {
            Ok(s) => s,
            Err(p) => {
                self.acc.violation(violation(&type_case, "signature-as-documented", "signature", format!("T::SIGNATURE panicked: {p}"), json!(null)));
                return;
            }
        };
        if declared != meta.expected_signature {
            self.acc.outcome("signature-differs-from-documented");
            self.acc.violation(violation(
                &type_case,
                "signature-as-documented",
                "signature",
                format!("T::SIGNATURE is `{declared}`, the documented mapping gives `{}`", meta.expected_signature),
                json!({"declared": declared}),
            ));
        } else {
            self.acc.outcome("signature-as-documented");
        }
        if self.verbose {
            println!("declared signature: `{declared}`");
        }
        // The declared signature as a harness type ("" = unit: no bytes).
        let declared_ty = if declared.is_empty() { None } else { parse_ty(&declared) };
        if !declared.is_empty() && declared_ty.is_none() {
            self.acc.violation(violation(
                &type_case,
                "bytes-conform-to-declared-signature",
                "signature",
                format!("declared signature `{declared}` is not one complete D-Bus type"),
                json!({"declared": declared}),
            ));
            return;
        }
        let nontrivial_type = !meta.definition.is_empty() || declared.len() > 1;

        let mut first_bytes: Option<Vec<u8>> = None;
        for (vi, expected) in ops.expected.iter().enumerate() {
            if let Some(f) = &self.filter {
                if f.value != vi {
                    continue;
                }
            }
            self.values += 1;
            let shown = if declared.is_empty() { "()".to_string() } else { expected.show() };
            let dbg = catch(|| (ops.debug)(vi)).unwrap_or_else(|_| "<Debug panicked>".into());
            if nontrivial_type {
                self.acc.nontrivial(hash64(&(meta.index, &shown)));
            }
            for be in [false, true] {
                for oi in 0..self.offsets.len() {
                    let offset = self.offsets[oi];
                    if let Some(f) = &self.filter {
                        if f.be != be || f.offset != offset {
                            continue;
                        }
                    }
                    let case = Case { meta, value: vi, be, offset, expected: Some(expected) };
                    self.acc.eval(1);
                    // ---- serialize
                    let bytes = match catch(|| (ops.ser)(vi, be, offset)) {
                        Ok(Ok(b)) => b,
                        Ok(Err(e)) => {
                            if self.verbose {
                                println!("value: {dbg}\nto_bytes: error {e}");
                            }
                            self.acc.outcome("serialize-error");
                            self.acc.violation(violation(&case, "round-trip", "serialize", format!("to_bytes({dbg}) failed: {e}"), json!({"error": e.to_string()})));
                            continue;
                        }
                        Err(p) => {
                            if self.verbose {
                                println!("value: {dbg}\nto_bytes: panic {p}");
                            }
                            self.acc.outcome("serialize-panic");
                            self.acc.violation(violation(&case, "round-trip", "serialize", format!("to_bytes({dbg}) panicked: {p}"), json!({"panic": p})));
                            continue;
                        }
                    };
                    if !be && offset == 0 && first_bytes.is_none() {
                        first_bytes = Some(bytes.clone());
                    }
                    if self.verbose {
                        println!("value: {dbg}\npredicted tree: {shown}\nbytes: {}", hex(&bytes));
                    }
                    let mut ok = true;
                    // ---- bytes conform to the declared signature, and carry the predicted value
                    match &declared_ty {
                        None => {
                            if !bytes.is_empty() {
                                ok = false;
                                self.acc.violation(violation(&case, "bytes-conform-to-declared-signature", "conformance",
                                    format!("empty signature but {} bytes serialized: {}", bytes.len(), hex(&bytes)), json!({"bytes": hex(&bytes)})));
                            }
                        }
                        Some(ty) => match refdbus::decode(ty, &bytes, be, offset, 0) {
                            Err(r) => {
                                ok = false;
                                if self.verbose {
                                    println!("reference decoder under `{declared}`: rejects ({r:?})");
                                }
                                self.acc.violation(violation(&case, "bytes-conform-to-declared-signature", "conformance",
                                    format!("{dbg} serializes to [{}] which is not a valid `{declared}` ({r:?})", hex(&bytes)),
                                    json!({"bytes": hex(&bytes), "declared": declared, "reject": format!("{r:?}")})));
                            }
                            Ok((got, used)) => {
                                if self.verbose {
                                    println!("reference decoder under `{declared}`: {} ({} of {} bytes)", got.show(), used, bytes.len());
                                }
                                if used != bytes.len() {
                                    ok = false;
                                    self.acc.violation(violation(&case, "bytes-conform-to-declared-signature", "conformance",
                                        format!("{dbg} serializes to {} bytes but a `{declared}` ends after {used}: {}", bytes.len(), hex(&bytes)),
                                        json!({"bytes": hex(&bytes), "declared": declared, "used": used})));
                                } else if !rv_eq(&got, expected) {
                                    ok = false;
                                    self.acc.violation(violation(&case, "decoded-value", "value",
                                        format!("{dbg} serializes to {} = {} under `{declared}`, predicted {}", hex(&bytes), got.show(), shown),
                                        json!({"bytes": hex(&bytes), "declared": declared, "decoded": got.show(), "predicted": shown})));
                                }
                            }
                        },
                    }
                    // ---- round trip through the library's own deserializer
                    match catch(|| (ops.back)(vi, &bytes, be, offset)) {
                        Ok(Ok((equal, back_dbg, n))) => {
                            if self.verbose {
                                println!("deserialized back: {back_dbg} ({n} bytes)");
                            }
                            if !equal || n != bytes.len() {
                                ok = false;
                                self.acc.violation(violation(&case, "round-trip", "compare",
                                    format!("{dbg} -> {} -> {back_dbg} ({n} of {} bytes)", hex(&bytes), bytes.len()),
                                    json!({"bytes": hex(&bytes), "back": back_dbg, "used": n})));
                            }
                        }
                        Ok(Err(e)) => {
                            ok = false;
                            if self.verbose {
                                println!("deserialized back: error {e}");
                            }
                            self.acc.violation(violation(&case, "round-trip", "deserialize",
                                format!("{dbg} -> {} does not deserialize: {e}", hex(&bytes)),
                                json!({"bytes": hex(&bytes), "error": e.to_string()})));
                        }
                        Err(p) => {
                            ok = false;
                            self.acc.violation(violation(&case, "round-trip", "deserialize",
                                format!("{dbg} -> {} : deserializer panicked: {p}", hex(&bytes)),
                                json!({"bytes": hex(&bytes), "panic": p})));
                        }
                    }
                    self.acc.outcome(if ok { "conforms+round-trips" } else { "violates" });
                    // one sample per kind of type: its last (= least trivial) listed value
                    if ok && !be && offset == 0 && vi + 1 == ops.expected.len() && self.sample_kinds.insert(meta.kind.to_string()) {
                        self.acc.sample(json!({
                            "type": meta.rust, "shape": meta.shape,
                            "definition": meta.definition, "signature": declared,
                            "value": dbg, "tree": shown, "bytes_le": hex(&bytes),
                        }));
                    }
                }
            }
        }
        // ---- negative control: the previous entry's bytes under this entry's signature.  Shows that
        // the reference decoder can tell conforming from non-conforming bytes.
        if self.filter.is_none() {
            if let (Some((psig, pbytes)), Some(ty)) = (&self.prev, &declared_ty) {
                if *psig != declared {
                    let class = match refdbus::decode(ty, pbytes, false, 0, 0) {
                        Err(_) => "control:foreign-bytes-rejected",
                        Ok((_, used)) if used != pbytes.len() => "control:foreign-bytes-length-mismatch",
                        Ok(_) => "control:foreign-bytes-also-valid",
                    };
                    self.acc.outcome(class);
                }
            }
            if let Some(b) = first_bytes {
                self.prev = Some((declared.clone(), b));
            }
        }
    }
}

fn offsets(tier: Tier) -> Vec<usize> {
    tier.pick(vec![0, 1, 4], (0..=8).collect())
}

fn oaa_bin() -> Option<String> {
    let bins = std::env::var("ZV_BINS").ok()?;
    bins.split(',').find_map(|e| e.strip_prefix("gv-oaa=").map(|p| p.to_string()))
}

fn new_run(tier: Tier, only_oaa: bool) -> Run {
    Run {
        acc: Acc::default(),
        offsets: offsets(tier),
        only_oaa,
        filter: None,
        verbose: false,
        programs: 0,
        derived: 0,
        bank_types: 0,
        capped_types: 0,
        values: 0,
        kinds: BTreeSet::new(),
        prev: None,
        sample_kinds: BTreeSet::new(),
    }
}

/// `--child`: run the option-as-array-only entries and print one JSON object for the parent.
fn child(args: &Args) -> i32 {
    if !cfg!(feature = "option-as-array") {
        vcommon::machinery_failure("C09 --child needs a binary built with --features option-as-array");
    }
    let mut run = new_run(args.tier, true);
    typebank::visit_all(&mut run);
    let out = json!({
        "programs": run.programs, "derived": run.derived, "bank_types": run.bank_types, "capped_types": run.capped_types,
        "values": run.values, "kinds": run.kinds,
    });
    // hand everything observed to the parent
    println!("C09-CHILD {}", json!({"counts": out, "report": run.acc.to_json()}));
    0
}

fn replay(args: &Args, path: &str) -> i32 {
    let art = vcommon::load_replay(path);
    let r = &art["replay"];
    let f = Filter {
        index: r["index"].as_u64().unwrap_or(0) as usize,
        value: r["value"].as_u64().unwrap_or(0) as usize,
        be: r["be"].as_bool().unwrap_or(false),
        offset: r["offset"].as_u64().unwrap_or(0) as usize,
    };
    let meta = typebank::METAS.get(f.index).unwrap_or_else(|| vcommon::machinery_failure("replay: no such bank entry"));
    println!("replay C09 clause={} type #{} `{}` [{}]", art["clause"].as_str().unwrap_or("?"), meta.index, meta.rust, meta.shape);
    if !meta.definition.is_empty() {
        println!("{}", meta.definition);
    }
    println!("documented signature: `{}`; value #{} {} offset {}", meta.expected_signature, f.value, if f.be { "BE" } else { "LE" }, f.offset);
    if meta.oaa && !cfg!(feature = "option-as-array") {
        // re-run in the option-as-array binary
        let Some(bin) = oaa_bin() else {
            vcommon::machinery_failure("replay of an Option<..> entry needs the gv-oaa binary (ZV_BINS)");
        };
        let st = std::process::Command::new(bin)
            .args(["C09", "--tier", args.tier.as_str(), "--replay", path])
            .status()
            .unwrap_or_else(|e| vcommon::machinery_failure(&format!("cannot run gv-oaa binary: {e}")));
        return st.code().unwrap_or(2);
    }
    let mut run = new_run(args.tier, false);
    run.offsets = vec![f.offset];
    run.filter = Some(f);
    run.verbose = true;
    typebank::visit_all(&mut run);
    if run.acc.has_violations() {
        for v in &run.acc.violations {
            println!("observation: VIOLATES clause={} {}", v.clause, v.detail);
        }
        1
    } else {
        println!("observation: the case holds (signature as documented, bytes conform, value matches, round-trips)");
        0
    }
}

pub fn main(args: &Args) -> i32 {
    if let Some(p) = &args.replay {
        return replay(args, p);
    }
    if args.extra.iter().any(|a| a == "--child") {
        return child(args);
    }
    let report = Report::new("C09", args.tier, args.seed, "exploration");
    let mut run = new_run(args.tier, false);
    typebank::visit_all(&mut run);
    let (mut programs, mut bank_types, mut capped_types, mut values) = (run.programs, run.bank_types, run.capped_types, run.values);
    let mut derived = run.derived;
    let mut kinds = run.kinds.clone();

    // Option<T> entries: in the option-as-array build
    let mut oaa_checked = cfg!(feature = "option-as-array");
    if !oaa_checked {
        match oaa_bin() {
            Some(bin) => {
                let out = std::process::Command::new(&bin)
                    .args(["C09", "--tier", args.tier.as_str(), "--child"])
                    .env("VERIF_ROOT", vcommon::verif_root())
                    .output()
                    .unwrap_or_else(|e| vcommon::machinery_failure(&format!("cannot run {bin}: {e}")));
                let text = String::from_utf8_lossy(&out.stdout);
                let Some(line) = text.lines().find_map(|l| l.strip_prefix("C09-CHILD ")) else {
                    vcommon::machinery_failure(&format!(
                        "gv-oaa child printed no result (exit {:?}): {}",
                        out.status.code(),
                        String::from_utf8_lossy(&out.stderr)
                    ));
                };
                let j: J = serde_json::from_str(line).unwrap_or_else(|e| vcommon::machinery_failure(&format!("bad child JSON: {e}")));
                programs += j["counts"]["programs"].as_u64().unwrap_or(0);
                derived += j["counts"]["derived"].as_u64().unwrap_or(0);
                bank_types += j["counts"]["bank_types"].as_u64().unwrap_or(0);
                capped_types += j["counts"]["capped_types"].as_u64().unwrap_or(0);
                values += j["counts"]["values"].as_u64().unwrap_or(0);
                for k in j["counts"]["kinds"].as_array().into_iter().flatten() {
                    kinds.insert(k.as_str().unwrap_or("").to_string());
                }
                run.acc.merge_json(&j["report"]);
                oaa_checked = true;
            }
            None => report.cap(format!(
                "the {} `Option<..>` bank entries were not checked: no gv-oaa binary in ZV_BINS (run through ./check)",
                typebank::BANK_TYPES_OAA_ONLY
            )),
        }
    }
    if oaa_checked && bank_types != typebank::BANK_TYPES as u64 {
        vcommon::machinery_failure(&format!("visited {bank_types} bank entries, the bank has {}", typebank::BANK_TYPES));
    }

    std::mem::take(&mut run.acc).apply(&report);
    report.set("programs", json!(programs));
    report.set("programs_whose_outermost_type_is_a_generated_definition", json!(derived));
    report.set("generated_definitions_in_bank", json!(typebank::DEFINITIONS));
    report.set("bank_types", json!(bank_types));
    report.set("values", json!(values));
    report.set("kinds", json!(kinds));
    report.set("offsets", json!(offsets(args.tier)));
    report.set("value_list_reduced_types", json!(capped_types));
    if capped_types > 0 {
        report.cap(format!(
            "{capped_types} of {bank_types} bank types have a reduced value list (more than {} values in the full product of the leaf domains, or a component with more than {} values inside a depth-2 type): base-choice coverage instead of the full product",
            typebank::VALUE_CAP,
            typebank::COMPONENT_CAP
        ));
    }
    report.assume("refdbus (reference D-Bus unmarshaller, audited against libdbus in C01/C03) decides conformance of bytes to a signature");
    report.assume("the generator's mapping rules (engines/gen/types.py header) are the documented ones: zvariant_derive docs, zvariant::Type docs, serde's data model for std types");
    report.assume("64-bit target: usize/isize are 8 bytes");
    report.finish(
        "cases = (bank type, listed value, byte order, start offset); the bank is the generator's enumeration of type definitions (primitives, library leaves, std/net/time impls, Vec/HashMap/Option/tuple, named/tuple/newtype/unit structs, repr/index/string unit enums, data enums, dict-structs; depth 2 = each outer constructor over each depth-1 representative); values = product of leaf domains (ints {0,±1,min,max}, strings {\"\",\"a\",\"é/€\"}, lengths {0,1,2}); plus one signature comparison per type. distinct_nontrivial = distinct (type, value tree) pairs whose type is a generated definition or has a container signature (hash set)",
        true,
    )
}
