//! Reference D-Bus marshaller and strict unmarshaller, written from the D-Bus specification's
//! "Marshaling (Wire Format)" section, independent of zvariant.

use crate::rv::{parse_ty, Ty, RV};

pub struct Enc {
    pub buf: Vec<u8>,
    /// absolute position of buf[0]
    pub base: usize,
    pub be: bool,
    /// fd table indices in order of appearance; the wire index of an `h` is its position here
    pub fds: Vec<u32>,
    /// When set, a second occurrence of the same fd table index reuses the wire index of the first
    /// (both policies are valid D-Bus: the wire value is an index into the attached fd array).
    pub dedup_fds: bool,
}

impl Enc {
    pub fn new(be: bool, base: usize) -> Self {
        Self {
            buf: vec![],
            base,
            be,
            fds: vec![],
            dedup_fds: false,
        }
    }
    fn pad(&mut self, align: usize) {
        while (self.base + self.buf.len()) % align != 0 {
            self.buf.push(0);
        }
    }
    fn u16(&mut self, v: u16) {
        self.pad(2);
        self.buf
            .extend_from_slice(&if self.be { v.to_be_bytes() } else { v.to_le_bytes() });
    }
    fn u32(&mut self, v: u32) {
        self.pad(4);
        self.buf
            .extend_from_slice(&if self.be { v.to_be_bytes() } else { v.to_le_bytes() });
    }
    fn u64(&mut self, v: u64) {
        self.pad(8);
        self.buf
            .extend_from_slice(&if self.be { v.to_be_bytes() } else { v.to_le_bytes() });
    }
    fn set_u32(&mut self, at: usize, v: u32) {
        let b = if self.be { v.to_be_bytes() } else { v.to_le_bytes() };
        self.buf[at..at + 4].copy_from_slice(&b);
    }
    fn sig(&mut self, s: &str) {
        self.buf.push(s.len() as u8);
        self.buf.extend_from_slice(s.as_bytes());
        self.buf.push(0);
    }
    fn string(&mut self, s: &str) {
        self.u32(s.len() as u32);
        self.buf.extend_from_slice(s.as_bytes());
        self.buf.push(0);
    }
    pub fn value(&mut self, v: &RV) {
        match v {
            RV::Y(x) => self.buf.push(*x),
            RV::B(x) => self.u32(*x as u32),
            RV::N(x) => self.u16(*x as u16),
            RV::Q(x) => self.u16(*x),
            RV::I(x) => self.u32(*x as u32),
            RV::U(x) => self.u32(*x),
            RV::X(x) => self.u64(*x as u64),
            RV::T(x) => self.u64(*x),
            RV::D(x) => self.u64(*x),
            RV::S(s) | RV::O(s) => self.string(s),
            RV::G(s) => self.sig(s),
            RV::V(b) => {
                self.sig(&b.0.sig());
                self.pad(b.0.align());
                self.value(&b.1);
            }
            RV::H(i) => {
                let idx = match self.fds.iter().position(|f| f == i) {
                    Some(p) if self.dedup_fds => p as u32,
                    _ => {
                        self.fds.push(*i);
                        (self.fds.len() - 1) as u32
                    }
                };
                self.u32(idx);
            }
            RV::Array(e, xs) => {
                self.u32(0);
                let len_at = self.buf.len() - 4;
                self.pad(e.align());
                let start = self.buf.len();
                for x in xs {
                    self.pad(e.align());
                    self.value(x);
                }
                let len = self.buf.len() - start;
                self.set_u32(len_at, len as u32);
            }
            RV::Dict(_, _, xs) => {
                self.u32(0);
                let len_at = self.buf.len() - 4;
                self.pad(8);
                let start = self.buf.len();
                for (k, v) in xs {
                    self.pad(8);
                    self.value(k);
                    self.value(v);
                }
                let len = self.buf.len() - start;
                self.set_u32(len_at, len as u32);
            }
            RV::Struct(xs) => {
                self.pad(8);
                for x in xs {
                    self.value(x);
                }
            }
            RV::Maybe(..) => panic!("maybe has no D-Bus encoding"),
        }
    }
}

/// Reference encoding of `v` (which starts at absolute position `base`; leading padding to the
/// value's own alignment is part of the encoding, as zvariant also emits it).
pub fn encode(v: &RV, be: bool, base: usize) -> Enc {
    encode_with(v, be, base, false)
}

/// Like [`encode`], choosing the fd index policy (see [`Enc::dedup_fds`]).
pub fn encode_with(v: &RV, be: bool, base: usize, dedup_fds: bool) -> Enc {
    let mut e = Enc::new(be, base);
    e.dedup_fds = dedup_fds;
    e.pad(v.ty().align());
    e.value(v);
    e
}

#[derive(Debug, Clone, PartialEq)]
pub enum Reject {
    /// Not enough bytes.
    Short,
    Padding,
    Bool,
    NoNul,
    Utf8,
    InteriorNul,
    ObjectPath,
    Signature,
    VariantSignature,
    ArrayBoundary,
    ArrayTooLong,
    Depth,
    FdIndex,
}

pub struct Dec<'a> {
    pub bytes: &'a [u8],
    pub pos: usize,
    pub base: usize,
    pub be: bool,
    pub n_fds: u32,
    arrays: usize,
    structs: usize,
    variants: usize,
    /// Diagnostics of the first rejection: signature of the innermost type being decoded,
    /// position (index into `bytes`) where decoding stopped, and a short note on what was being
    /// read ("padding", "length", "body", "terminator", "value", ...).
    pub fail_ty: Option<String>,
    pub fail_pos: usize,
    pub fail_note: &'static str,
    /// was the first rejection inside the value of a variant?
    pub fail_in_variant: bool,
    note: &'static str,
}

pub fn valid_object_path(s: &str) -> bool {
    if s == "/" {
        return true;
    }
    if !s.starts_with('/') || s.ends_with('/') {
        return false;
    }
    s[1..].split('/').all(|el| {
        !el.is_empty()
            && el
                .bytes()
                .all(|b| b.is_ascii_alphanumeric() || b == b'_')
    })
}

/// Validate a signature string: a sequence of complete types (struct and dict-entry rules,
/// ≤ 255 bytes, array / struct nesting ≤ 32 each).
pub fn valid_signature(s: &str) -> bool {
    if s.len() > 255 {
        return false;
    }
    let b = s.as_bytes();
    fn one(b: &[u8], i: &mut usize, arr: usize, st: usize) -> bool {
        let Some(c) = b.get(*i) else { return false };
        *i += 1;
        match c {
            b'y' | b'b' | b'n' | b'q' | b'i' | b'u' | b'x' | b't' | b'd' | b's' | b'o' | b'g'
            | b'v' | b'h' => true,
            b'a' => {
                if arr + 1 > 32 {
                    return false;
                }
                if b.get(*i) == Some(&b'{') {
                    *i += 1;
                    // key must be basic
                    let Some(k) = b.get(*i) else { return false };
                    if !matches!(
                        k,
                        b'y' | b'b'
                            | b'n'
                            | b'q'
                            | b'i'
                            | b'u'
                            | b'x'
                            | b't'
                            | b'd'
                            | b's'
                            | b'o'
                            | b'g'
                            | b'h'
                    ) {
                        return false;
                    }
                    *i += 1;
                    if !one(b, i, arr + 1, st + 1) {
                        return false;
                    }
                    if b.get(*i) != Some(&b'}') {
                        return false;
                    }
                    *i += 1;
                    true
                } else {
                    one(b, i, arr + 1, st)
                }
            }
            b'(' => {
                if st + 1 > 32 {
                    return false;
                }
                let mut n = 0;
                while b.get(*i) != Some(&b')') {
                    if !one(b, i, arr, st + 1) {
                        return false;
                    }
                    n += 1;
                }
                *i += 1;
                n > 0
            }
            _ => false,
        }
    }
    let mut i = 0;
    while i < b.len() {
        if !one(b, &mut i, 0, 0) {
            return false;
        }
    }
    true
}

impl<'a> Dec<'a> {
    pub fn new(bytes: &'a [u8], be: bool, base: usize, n_fds: u32) -> Self {
        Self {
            bytes,
            pos: 0,
            base,
            be,
            n_fds,
            arrays: 0,
            structs: 0,
            variants: 0,
            fail_ty: None,
            fail_pos: 0,
            fail_note: "",
            fail_in_variant: false,
            note: "",
        }
    }
    fn pad(&mut self, align: usize) -> Result<(), Reject> {
        self.note = "padding";
        while (self.base + self.pos) % align != 0 {
            match self.bytes.get(self.pos) {
                None => return Err(Reject::Short),
                Some(0) => self.pos += 1,
                Some(_) => return Err(Reject::Padding),
            }
        }
        self.note = "value";
        Ok(())
    }
    fn take(&mut self, n: usize) -> Result<&'a [u8], Reject> {
        if self.pos + n > self.bytes.len() {
            return Err(Reject::Short);
        }
        let s = &self.bytes[self.pos..self.pos + n];
        self.pos += n;
        Ok(s)
    }
    fn u16(&mut self) -> Result<u16, Reject> {
        self.pad(2)?;
        let b: [u8; 2] = self.take(2)?.try_into().unwrap();
        Ok(if self.be { u16::from_be_bytes(b) } else { u16::from_le_bytes(b) })
    }
    fn u32(&mut self) -> Result<u32, Reject> {
        self.pad(4)?;
        let b: [u8; 4] = self.take(4)?.try_into().unwrap();
        Ok(if self.be { u32::from_be_bytes(b) } else { u32::from_le_bytes(b) })
    }
    fn u64(&mut self) -> Result<u64, Reject> {
        self.pad(8)?;
        let b: [u8; 8] = self.take(8)?.try_into().unwrap();
        Ok(if self.be { u64::from_be_bytes(b) } else { u64::from_le_bytes(b) })
    }
    fn str_body(&mut self, len: usize) -> Result<String, Reject> {
        self.note = "body";
        let body = self.take(len)?;
        self.note = "terminator";
        match self.take(1)? {
            [0] => {}
            _ => {
                // report the position of the offending terminator byte
                self.pos -= 1;
                return Err(Reject::NoNul);
            }
        }
        self.note = "content";
        let s = std::str::from_utf8(body).map_err(|_| Reject::Utf8)?;
        if s.contains('\0') {
            return Err(Reject::InteriorNul);
        }
        Ok(s.to_string())
    }
    fn depth_ok(&self) -> Result<(), Reject> {
        if self.arrays > 32 || self.structs > 32 || self.arrays + self.structs + self.variants > 64 {
            Err(Reject::Depth)
        } else {
            Ok(())
        }
    }
    pub fn value(&mut self, ty: &Ty) -> Result<RV, Reject> {
        let r = self.value_inner(ty);
        if r.is_err() && self.fail_ty.is_none() {
            self.fail_ty = Some(ty.sig());
            self.fail_pos = self.pos;
            self.fail_note = self.note;
            self.fail_in_variant = self.variants > 0;
        }
        r
    }
    fn value_inner(&mut self, ty: &Ty) -> Result<RV, Reject> {
        self.note = "value";
        Ok(match ty {
            Ty::Y => RV::Y(self.take(1)?[0]),
            Ty::B => match self.u32()? {
                0 => RV::B(false),
                1 => RV::B(true),
                _ => return Err(Reject::Bool),
            },
            Ty::N => RV::N(self.u16()? as i16),
            Ty::Q => RV::Q(self.u16()?),
            Ty::I => RV::I(self.u32()? as i32),
            Ty::U => RV::U(self.u32()?),
            Ty::X => RV::X(self.u64()? as i64),
            Ty::T => RV::T(self.u64()?),
            Ty::D => RV::D(self.u64()?),
            Ty::S => {
                let len = self.u32()? as usize;
                RV::S(self.str_body(len)?)
            }
            Ty::O => {
                let len = self.u32()? as usize;
                let s = self.str_body(len)?;
                self.note = "content";
                if !valid_object_path(&s) {
                    return Err(Reject::ObjectPath);
                }
                RV::O(s)
            }
            Ty::G => {
                let len = self.take(1)?[0] as usize;
                let s = self.str_body(len)?;
                if !valid_signature(&s) {
                    return Err(Reject::Signature);
                }
                RV::G(s)
            }
            Ty::H => {
                let idx = self.u32()?;
                if idx >= self.n_fds {
                    return Err(Reject::FdIndex);
                }
                RV::H(idx)
            }
            Ty::V => {
                let len = self.take(1)?[0] as usize;
                let s = self.str_body(len)?;
                if !valid_signature(&s) {
                    return Err(Reject::Signature);
                }
                // must be exactly one complete type
                let Some(inner) = parse_ty(&s) else {
                    return Err(Reject::VariantSignature);
                };
                if inner.contains(&|t| matches!(t, Ty::Maybe(_))) {
                    return Err(Reject::VariantSignature);
                }
                self.variants += 1;
                self.note = "depth";
                self.depth_ok()?;
                self.pad(inner.align())?;
                let v = self.value(&inner)?;
                self.variants -= 1;
                RV::V(Box::new((inner, v)))
            }
            Ty::Array(e) => {
                let len = self.u32()? as usize;
                if len > (1 << 26) {
                    return Err(Reject::ArrayTooLong);
                }
                self.arrays += 1;
                self.note = "depth";
                self.depth_ok()?;
                self.pad(e.align())?;
                // No up-front "length exceeds the buffer" test: every element consumes at least one
                // byte, so an over-long length ends in `Short` inside the element that runs out of
                // bytes, which also says *where* the encoding stops being valid.
                let end = self.pos + len;
                let mut xs = vec![];
                while self.pos < end {
                    self.pad(e.align())?;
                    xs.push(self.value(e)?);
                    if self.pos > end {
                        self.note = "boundary";
                        return Err(Reject::ArrayBoundary);
                    }
                }
                self.arrays -= 1;
                RV::Array((**e).clone(), xs)
            }
            Ty::Dict(k, v) => {
                let len = self.u32()? as usize;
                if len > (1 << 26) {
                    return Err(Reject::ArrayTooLong);
                }
                self.arrays += 1;
                self.note = "depth";
                self.depth_ok()?;
                self.pad(8)?;
                let end = self.pos + len;
                let mut xs = vec![];
                while self.pos < end {
                    self.pad(8)?;
                    let kk = self.value(k)?;
                    if self.pos > end {
                        self.note = "boundary";
                        return Err(Reject::ArrayBoundary);
                    }
                    let vv = self.value(v)?;
                    xs.push((kk, vv));
                    if self.pos > end {
                        self.note = "boundary";
                        return Err(Reject::ArrayBoundary);
                    }
                }
                self.arrays -= 1;
                RV::Dict((**k).clone(), (**v).clone(), xs)
            }
            Ty::Struct(fs) => {
                self.structs += 1;
                self.note = "depth";
                self.depth_ok()?;
                self.pad(8)?;
                let mut xs = vec![];
                for f in fs {
                    xs.push(self.value(f)?);
                }
                self.structs -= 1;
                RV::Struct(xs)
            }
            Ty::Maybe(_) => return Err(Reject::Signature),
        })
    }
}

/// Strictly decode a prefix of `bytes` as one value of `ty`; returns the value and the number of
/// bytes consumed (including leading alignment padding).
pub fn decode(ty: &Ty, bytes: &[u8], be: bool, base: usize, n_fds: u32) -> Result<(RV, usize), Reject> {
    decode_ex(ty, bytes, be, base, n_fds).map_err(|e| e.reject)
}

/// A rejection together with where and in what the reference decoder stopped.
#[derive(Debug, Clone)]
pub struct RejectInfo {
    pub reject: Reject,
    /// signature of the innermost type that was being decoded
    pub ty: String,
    /// index into the input of the first byte that could not be accepted
    pub pos: usize,
    /// what was being read: padding / value / body / terminator / content / boundary / depth
    pub note: &'static str,
    /// the rejected item is (part of) the value of a variant
    pub in_variant: bool,
}

/// [`decode`] with diagnostics.
pub fn decode_ex(ty: &Ty, bytes: &[u8], be: bool, base: usize, n_fds: u32) -> Result<(RV, usize), RejectInfo> {
    let mut d = Dec::new(bytes, be, base, n_fds);
    let r = match d.pad(ty.align()) {
        Ok(()) => d.value(ty),
        Err(e) => {
            d.fail_ty = Some(ty.sig());
            d.fail_pos = d.pos;
            d.fail_note = "padding";
            Err(e)
        }
    };
    match r {
        Ok(v) => Ok((v, d.pos)),
        Err(reject) => Err(RejectInfo {
            reject,
            ty: d.fail_ty.clone().unwrap_or_default(),
            pos: d.fail_pos,
            note: d.fail_note,
            in_variant: d.fail_in_variant,
        }),
    }
}
