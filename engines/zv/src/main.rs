//! zv: codec-level checks (zvariant, zvariant_utils, zbus_names, zbus_xml). No zbus dependency.
//! Usage: zv <ID> [--tier quick|thorough] [--replay <path>]
#![allow(dead_code)]

mod refdbus;
mod zvx;
mod refnames;
mod refgv;
mod rv;
mod typebank;

mod c01;
mod c02;
mod c03;
mod c04;
mod c05;
mod c06;
mod c07;
mod c08;
mod c09;
mod c10;
mod c34;

fn main() {
    vcommon::quiet_panics();
    let args = vcommon::parse_args();
    let code = match args.id.as_str() {
        "C01" => c01::main(&args),
        "C02" => c02::main(&args),
        "C03" => c03::main(&args),
        "C04" => c04::main(&args),
        "C05" => c05::main(&args),
        "C06" => c06::main(&args),
        "C07" => c07::main(&args),
        "C08" => c08::main(&args),
        "C09" => c09::main(&args),
        "C10" => c10::main(&args),
        "C34" => c34::main(&args),
        other => vcommon::machinery_failure(&format!("zv: unknown property id {other}")),
    };
    std::process::exit(code);
}
