//! C01 — D-Bus encoding is byte-exact with the specification.
//!
//! Space: every single complete D-Bus type with ≤ N signature nodes (`rv::all_types`), every value
//! of `rv::values` (small leaf domains, base-choice above the cap — reported), both byte orders,
//! start offsets 0..7 (quick) / 0..15 (thorough), four encode routes of the real zvariant
//! (`dyn`, `variant`, `serde`, `typed` — see zvx.rs).
//! Oracle (only what the statement says): bytes == reference marshaller (`refdbus::encode`);
//! `serialized_size` == number of bytes written; number of fds reported by `serialized_size` ==
//! number of fds attached by `to_bytes`, and every `h` on the wire indexes an attached fd that is
//! the original file.

use serde_json::json;
use vcommon::{hex, Args, Report, Violation};

use crate::{
    refdbus,
    rv::{self, Ty, RV},
    zvx::{self, Acc},
};

const CAP: usize = 64;

fn kind(ty: &Ty) -> &'static str {
    match ty {
        Ty::Array(_) => "array",
        Ty::Dict(..) => "dict",
        Ty::Struct(_) => "struct",
        Ty::V => "variant",
        Ty::Maybe(_) => "maybe",
        Ty::H => "fd",
        Ty::S | Ty::O | Ty::G => "string-like",
        _ => "fixed",
    }
}

fn has_repeated_fd(v: &RV) -> bool {
    fn collect(v: &RV, out: &mut Vec<u32>) {
        match v {
            RV::H(i) => out.push(*i),
            RV::V(b) => collect(&b.1, out),
            RV::Array(_, xs) | RV::Struct(xs) => xs.iter().for_each(|x| collect(x, out)),
            RV::Dict(_, _, xs) => xs.iter().for_each(|(k, v)| {
                collect(k, out);
                collect(v, out)
            }),
            RV::Maybe(_, Some(x)) => collect(x, out),
            _ => {}
        }
    }
    let mut v0 = vec![];
    collect(v, &mut v0);
    let n = v0.len();
    v0.sort();
    v0.dedup();
    v0.len() != n
}

struct Case<'a> {
    ty: &'a Ty,
    vidx: usize,
    be: bool,
    off: usize,
}

impl Case<'_> {
    fn replay(&self, route: &str, typed: Option<&str>) -> serde_json::Value {
        json!({"sig": self.ty.sig(), "value_index": self.vidx, "big_endian": self.be, "offset": self.off,
               "route": route, "typed": typed, "cap": CAP})
    }
}

/// Compare one real encoding with the reference. `refv` is the value the reference encodes.
#[allow(clippy::too_many_arguments)]
fn judge(
    acc: &mut Acc,
    case: &Case<'_>,
    route: &str,
    typed: Option<&str>,
    refv: &RV,
    real: &Result<(Vec<u8>, Vec<u64>), String>,
    size: &Result<(usize, Option<u32>), String>,
    table_inodes: &[u64],
) {
    acc.evals += 1;
    let what = format!(
        "{} value {} ({}) {} offset {} route {}{}",
        refv.ty().sig(),
        refv.show(),
        case.ty.sig(),
        if case.be { "BE" } else { "LE" },
        case.off,
        route,
        typed.map(|t| format!(" as {t}")).unwrap_or_default()
    );
    let v = |clause: &str, detail: String| {
        Violation::new(clause, detail, case.replay(route, typed))
            .feat("route", route)
            .feat("kind", kind(&refv.ty()))
    };
    let (bytes, attached) = match real {
        Ok(x) => x,
        Err(e) => {
            acc.outcome(&format!("{route}:encode-error"));
            acc.violation(
                v("encode-fails", format!("{what}: the real encoder failed on a well-typed value: {e}"))
                    .feat("error", zvx::err_class(e)),
            );
            return;
        }
    };
    // fd index policy: the wire value of an `h` is an index into the attached fds; a repeated fd
    // may share one attachment or get one each. Accept either, whichever the implementation chose.
    let nodedup = refdbus::encode_with(refv, case.be, case.off, false);
    let dedup = refdbus::encode_with(refv, case.be, case.off, true);
    let reference = if attached.len() == dedup.fds.len() && dedup.fds.len() != nodedup.fds.len() {
        &dedup
    } else {
        &nodedup
    };
    if *bytes == reference.buf {
        acc.outcome(&format!("{route}:equal"));
    } else {
        acc.outcome(&format!("{route}:differs"));
        let first = bytes
            .iter()
            .zip(&reference.buf)
            .position(|(a, b)| a != b)
            .unwrap_or(bytes.len().min(reference.buf.len()));
        acc.violation(
            v(
                "bytes-differ",
                format!(
                    "{what}: real {} reference {} (first difference at byte {first})",
                    hex(bytes),
                    hex(&reference.buf)
                ),
            )
            .feat("diff", if bytes.len() != reference.buf.len() { "length" } else { "content" }),
        );
    }
    // attached fds are the files the value named
    if !reference.fds.is_empty() || !attached.is_empty() {
        let expect: Vec<u64> = reference.fds.iter().map(|i| table_inodes[*i as usize]).collect();
        if *attached != expect {
            acc.violation(v(
                "fds-attached",
                format!("{what}: attached fds (inodes {attached:?}) are not the value's fds in wire-index order ({expect:?})"),
            ));
        }
    }
    match size {
        Ok((n, nfds)) => {
            if *n != bytes.len() {
                acc.violation(
                    v("size-differs", format!("{what}: serialized_size says {n}, {} bytes were written", bytes.len())),
                );
            }
            if let Some(nfds) = nfds {
                if *nfds as usize != attached.len() {
                    acc.outcome("fd-count:differs");
                    acc.violation(
                        v(
                            "fd-count",
                            format!(
                                "{what}: serialized_size reports {nfds} fds, to_bytes attached {}",
                                attached.len()
                            ),
                        )
                        .feat("repeated_fd", has_repeated_fd(refv)),
                    );
                } else if *nfds > 0 {
                    acc.outcome("fd-count:equal");
                }
            }
        }
        Err(e) => {
            acc.violation(
                v("size-fails", format!("{what}: serialized_size failed: {e}")).feat("error", zvx::err_class(e)),
            );
        }
    }
}

fn run_value(
    acc: &mut Acc,
    ty: &Ty,
    vidx: usize,
    rv: &RV,
    endians: &[bool],
    offsets: &[usize],
    bank: &std::collections::BTreeMap<String, Vec<Box<dyn zvx::TypedOps>>>,
    only_route: Option<&str>,
    verbose: bool,
) {
    zvx::with_fds(|fds| {
        let table_inodes: Vec<u64> = fds.fds.iter().map(rv::FdTable::inode).collect();
        let norm = match zvx::normalize(rv, fds) {
            Ok(n) => n,
            Err(e) => vcommon::machinery_failure(&format!("C01: cannot build {}: {e}", rv.show())),
        };
        let value = rv::to_value(&norm, fds).expect("harness: to_value");
        let as_variant = RV::V(Box::new((norm.ty(), norm.clone())));
        let typed = bank.get(&ty.sig());
        for &be in endians {
            for &off in offsets {
                let case = Case { ty, vidx, be, off };
                let c = zvx::ctxt(false, be, off);
                let pack = |e: Result<zvx::Encoded, String>| e.map(|e| (e.bytes().to_vec(), e.fd_inodes()));
                let szp = |s: Result<(usize, u32), String>| s.map(|(n, f)| (n, Some(f)));
                let want = |r: &str| only_route.map(|o| o == r).unwrap_or(true);
                if want("dyn") {
                    let real = pack(zvx::enc_dyn(&value, c));
                    let size = szp(zvx::size_dyn(&value, c));
                    if verbose {
                        println!("route dyn: real {:?} size {:?}", real.as_ref().map(|(b, f)| (hex(b), f.clone())), size);
                    }
                    judge(acc, &case, "dyn", None, &norm, &real, &size, &table_inodes);
                }
                if want("variant") {
                    let real = pack(zvx::enc_variant(&value, c));
                    let size = szp(zvx::size_variant(&value, c));
                    if verbose {
                        println!("route variant: real {:?} size {:?}", real.as_ref().map(|(b, f)| (hex(b), f.clone())), size);
                    }
                    judge(acc, &case, "variant", None, &as_variant, &real, &size, &table_inodes);
                }
                if want("serde") {
                    // the harness's own entry order for dicts: a generic map type decides its order
                    let real = pack(zvx::enc_serde(rv, fds, c));
                    let size = szp(zvx::size_serde(rv, fds, c));
                    if verbose {
                        println!("route serde: real {:?} size {:?}", real.as_ref().map(|(b, f)| (hex(b), f.clone())), size);
                    }
                    judge(acc, &case, "serde", None, rv, &real, &size, &table_inodes);
                }
                if want("typed") {
                    for ops in typed.into_iter().flatten().filter(|o| o.dbus_ok()) {
                        if let Some(t) = ops.encode(rv, c) {
                            let real = t.bytes.map(|b| (b, vec![]));
                            let size = t.size.map(|n| (n, None));
                            if verbose {
                                println!("route typed {}: real {:?} size {:?}", ops.name(), real.as_ref().map(|(b, _)| hex(b)), size);
                            }
                            judge(acc, &case, "typed", Some(ops.name()), &t.as_rv, &real, &size, &table_inodes);
                        }
                    }
                }
                // non-trivial: the encoding involves a container or alignment padding
                let lead_pad = off % ty.align() != 0;
                if ty.has_container() || lead_pad {
                    acc.nontrivial.insert(vcommon::hash64(&(ty.sig(), vidx, be, off)));
                }
                if lead_pad {
                    acc.outcome("case:leading-padding");
                } else {
                    acc.outcome("case:aligned-start");
                }
            }
        }
    })
}

fn replay(path: &str) -> i32 {
    let art = vcommon::load_replay(path);
    let r = &art["replay"];
    let (Some(sig), Some(vidx), Some(be), Some(off)) = (
        r["sig"].as_str(),
        r["value_index"].as_u64(),
        r["big_endian"].as_bool(),
        r["offset"].as_u64(),
    ) else {
        vcommon::machinery_failure("C01 replay: malformed artefact");
    };
    let ty = rv::parse_ty(sig).unwrap_or_else(|| vcommon::machinery_failure("C01 replay: bad signature"));
    let cap = r["cap"].as_u64().unwrap_or(CAP as u64) as usize;
    let mut capped = false;
    let vals = rv::values(&ty, &rv::Domain::standard(cap), &mut capped);
    let Some(rvv) = vals.get(vidx as usize) else {
        vcommon::machinery_failure("C01 replay: value index out of range");
    };
    println!("C01 replay: type {sig} value {} {} offset {off}", rvv.show(), if be { "BE" } else { "LE" });
    println!("reference (as given): {}", hex(&refdbus::encode(rvv, be, off as usize).buf));
    let bank = zvx::bank_by_sig();
    let mut acc = Acc::default();
    run_value(&mut acc, &ty, vidx as usize, rvv, &[be], &[off as usize], &bank, r["route"].as_str(), true);
    if acc.violations.is_empty() {
        println!("observation: no clause violated on this case");
        0
    } else {
        for v in &acc.violations {
            println!("observation: clause={} {}", v.clause, v.detail);
        }
        1
    }
}

pub fn main(args: &Args) -> i32 {
    if let Some(p) = &args.replay {
        return replay(p);
    }
    let report = Report::new("C01", args.tier, args.seed, "exploration");
    let n = args.tier.pick(3, 4);
    let offsets: Vec<usize> = (0..args.tier.pick(8, 16)).collect();
    let corpus = zvx::corpus(n, false, CAP);
    let bank = zvx::bank_by_sig();
    report.set("types", json!(corpus.items.len()));
    report.set("values", json!(corpus.items.iter().map(|(_, v)| v.len()).sum::<usize>()));
    report.set("max_signature_nodes", json!(n));
    report.set("offsets", json!(offsets.len()));
    report.set(
        "typed_bank_shapes_in_space",
        json!(corpus
            .items
            .iter()
            .filter(|(t, _)| bank.contains_key(&t.sig()))
            .count()),
    );
    if corpus.capped_types > 0 {
        report.cap(format!(
            "value lists of {} of {} types were reduced (per-type cap {CAP}: base-choice over struct fields, first/last for variant payloads)",
            corpus.capped_types,
            corpus.items.len()
        ));
    }
    // the bank's declared signatures must be what the harness thinks they are (harness sanity)
    for ops in zvx::bank() {
        if ops.declared_sig() != ops.ty().sig() {
            vcommon::machinery_failure(&format!(
                "typed bank: {} declares {} but the harness maps it to {}",
                ops.name(),
                ops.declared_sig(),
                ops.ty().sig()
            ));
        }
    }
    let items = &corpus.items;
    vcommon::par_for(items.len(), 1, |i| {
        let (ty, vals) = &items[i];
        let mut acc = Acc::default();
        for (vidx, rvv) in vals.iter().enumerate() {
            run_value(&mut acc, ty, vidx, rvv, &[false, true], &offsets, &bank, None, false);
        }
        acc.flush(&report);
    });
    // deterministic samples
    zvx::with_fds(|fds| {
        for (sig, idx) in [("a{sy}", 2usize), ("(yx)", 3), ("av", 3), ("a(t)", 2), ("(hh)", 1), ("a{yv}", 1), ("aas", 3)] {
            let Some(ty) = rv::parse_ty(sig) else { continue };
            let mut capped = false;
            let vals = rv::values(&ty, &rv::Domain::standard(CAP), &mut capped);
            let Some(v) = vals.get(idx) else { continue };
            let Ok(norm) = zvx::normalize(v, fds) else { continue };
            let val = rv::to_value(&norm, fds).unwrap();
            let real = zvx::enc_dyn(&val, zvx::ctxt(false, true, 3));
            report.sample(json!({"sig": sig, "value": norm.show(), "big_endian": true, "offset": 3,
                "reference": hex(&refdbus::encode(&norm, true, 3).buf),
                "real_dyn": real.as_ref().map(|e| hex(e.bytes())).unwrap_or_default(),
                "attached_fds": real.as_ref().map(|e| e.fd_inodes().len()).unwrap_or(0)}));
        }
    });
    report.assume("the reference marshaller refdbus::encode is the D-Bus wire format (written from the specification; audited against libdbus separately)");
    report.assume("a repeated fd may share one attachment or use one per occurrence; both index policies are accepted");
    report.assume("for zvariant::Dict the entry order is the one the Dict holds after construction; for the serde/typed routes the order of the map that was serialized");
    report.finish(
        "one evaluation = (type ≤ N nodes, value from rv::values, endian, start offset, encode route); non-trivial = the type has a container or the start offset forces leading padding, counted per distinct (type, value, endian, offset)",
        true,
    )
}
