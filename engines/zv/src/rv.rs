//! The harness's own type and value trees (independent of zvariant), their exhaustive
//! enumeration, and conversion to/from `zvariant::Value` through public constructors only.

use std::os::fd::{AsRawFd, FromRawFd, OwnedFd};

use zvariant::{Array, Dict, ObjectPath, Signature, StructureBuilder, Value};

#[derive(Clone, Debug, PartialEq, Eq, Hash, PartialOrd, Ord)]
pub enum Ty {
    Y,
    B,
    N,
    Q,
    I,
    U,
    X,
    T,
    D,
    S,
    O,
    G,
    V,
    H,
    Array(Box<Ty>),
    Dict(Box<Ty>, Box<Ty>),
    Struct(Vec<Ty>),
    Maybe(Box<Ty>),
}

pub const LEAVES: [Ty; 14] = [
    Ty::Y,
    Ty::B,
    Ty::N,
    Ty::Q,
    Ty::I,
    Ty::U,
    Ty::X,
    Ty::T,
    Ty::D,
    Ty::S,
    Ty::O,
    Ty::G,
    Ty::V,
    Ty::H,
];

impl Ty {
    pub fn is_basic(&self) -> bool {
        !matches!(
            self,
            Ty::V | Ty::Array(_) | Ty::Dict(..) | Ty::Struct(_) | Ty::Maybe(_)
        )
    }
    pub fn sig(&self) -> String {
        let mut s = String::new();
        self.write_sig(&mut s);
        s
    }
    pub fn write_sig(&self, s: &mut String) {
        match self {
            Ty::Y => s.push('y'),
            Ty::B => s.push('b'),
            Ty::N => s.push('n'),
            Ty::Q => s.push('q'),
            Ty::I => s.push('i'),
            Ty::U => s.push('u'),
            Ty::X => s.push('x'),
            Ty::T => s.push('t'),
            Ty::D => s.push('d'),
            Ty::S => s.push('s'),
            Ty::O => s.push('o'),
            Ty::G => s.push('g'),
            Ty::V => s.push('v'),
            Ty::H => s.push('h'),
            Ty::Array(e) => {
                s.push('a');
                e.write_sig(s)
            }
            Ty::Dict(k, v) => {
                s.push_str("a{");
                k.write_sig(s);
                v.write_sig(s);
                s.push('}')
            }
            Ty::Struct(fs) => {
                s.push('(');
                for f in fs {
                    f.write_sig(s);
                }
                s.push(')')
            }
            Ty::Maybe(e) => {
                s.push('m');
                e.write_sig(s)
            }
        }
    }
    /// D-Bus alignment.
    pub fn align(&self) -> usize {
        match self {
            Ty::Y | Ty::G | Ty::V => 1,
            Ty::N | Ty::Q => 2,
            Ty::B | Ty::I | Ty::U | Ty::S | Ty::O | Ty::H | Ty::Array(_) | Ty::Dict(..) => 4,
            Ty::X | Ty::T | Ty::D | Ty::Struct(_) => 8,
            Ty::Maybe(e) => e.align(),
        }
    }
    pub fn nodes(&self) -> usize {
        match self {
            Ty::Array(e) | Ty::Maybe(e) => 1 + e.nodes(),
            Ty::Dict(k, v) => 1 + k.nodes() + v.nodes(),
            Ty::Struct(fs) => 1 + fs.iter().map(|f| f.nodes()).sum::<usize>(),
            _ => 1,
        }
    }
    pub fn has_container(&self) -> bool {
        !matches!(self.nodes(), 1) || *self == Ty::V
    }
    pub fn contains(&self, pred: &dyn Fn(&Ty) -> bool) -> bool {
        if pred(self) {
            return true;
        }
        match self {
            Ty::Array(e) | Ty::Maybe(e) => e.contains(pred),
            Ty::Dict(k, v) => k.contains(pred) || v.contains(pred),
            Ty::Struct(fs) => fs.iter().any(|f| f.contains(pred)),
            _ => false,
        }
    }
}

/// Parse a signature string of exactly one complete type produced by `Ty::sig` (harness use only).
pub fn parse_ty(s: &str) -> Option<Ty> {
    fn p(b: &[u8], i: &mut usize) -> Option<Ty> {
        let c = *b.get(*i)?;
        *i += 1;
        Some(match c {
            b'y' => Ty::Y,
            b'b' => Ty::B,
            b'n' => Ty::N,
            b'q' => Ty::Q,
            b'i' => Ty::I,
            b'u' => Ty::U,
            b'x' => Ty::X,
            b't' => Ty::T,
            b'd' => Ty::D,
            b's' => Ty::S,
            b'o' => Ty::O,
            b'g' => Ty::G,
            b'v' => Ty::V,
            b'h' => Ty::H,
            b'm' => Ty::Maybe(Box::new(p(b, i)?)),
            b'a' => {
                if b.get(*i) == Some(&b'{') {
                    *i += 1;
                    let k = p(b, i)?;
                    let v = p(b, i)?;
                    if b.get(*i) != Some(&b'}') {
                        return None;
                    }
                    *i += 1;
                    Ty::Dict(Box::new(k), Box::new(v))
                } else {
                    Ty::Array(Box::new(p(b, i)?))
                }
            }
            b'(' => {
                let mut fs = vec![];
                while b.get(*i) != Some(&b')') {
                    fs.push(p(b, i)?);
                }
                *i += 1;
                if fs.is_empty() {
                    return None;
                }
                Ty::Struct(fs)
            }
            _ => return None,
        })
    }
    let mut i = 0;
    let t = p(s.as_bytes(), &mut i)?;
    if i == s.len() {
        Some(t)
    } else {
        None
    }
}

/// Every single complete type with exactly `n` nodes (struct arity ≤ 3; dict keys basic).
fn types_exact(n: usize, maybe: bool, memo: &mut Vec<Option<Vec<Ty>>>) -> Vec<Ty> {
    if let Some(Some(v)) = memo.get(n) {
        return v.clone();
    }
    let mut out = vec![];
    if n == 1 {
        out.extend(LEAVES.iter().cloned());
    } else if n >= 2 {
        for e in types_exact(n - 1, maybe, memo) {
            out.push(Ty::Array(Box::new(e.clone())));
            if maybe && !matches!(e, Ty::Maybe(_)) {
                out.push(Ty::Maybe(Box::new(e)));
            }
        }
        // dicts: 1 + 1 (basic key) + nodes(v)
        if n >= 3 {
            for k in LEAVES.iter().filter(|l| l.is_basic()) {
                for v in types_exact(n - 2, maybe, memo) {
                    out.push(Ty::Dict(Box::new(k.clone()), Box::new(v)));
                }
            }
        }
        // structs of arity 1..=3
        let rest = n - 1;
        for a in types_exact(rest, maybe, memo) {
            out.push(Ty::Struct(vec![a]));
        }
        for i in 1..rest {
            for a in types_exact(i, maybe, memo) {
                for b in types_exact(rest - i, maybe, memo) {
                    out.push(Ty::Struct(vec![a.clone(), b]));
                }
            }
        }
        for i in 1..rest {
            for j in 1..rest.saturating_sub(i) {
                let k = rest - i - j;
                if k == 0 {
                    continue;
                }
                for a in types_exact(i, maybe, memo) {
                    for b in types_exact(j, maybe, memo) {
                        for c in types_exact(k, maybe, memo) {
                            out.push(Ty::Struct(vec![a.clone(), b.clone(), c]));
                        }
                    }
                }
            }
        }
    }
    if memo.len() <= n {
        memo.resize(n + 1, None);
    }
    memo[n] = Some(out.clone());
    out
}

/// Every single complete type with at most `max_nodes` nodes, simplest first.
pub fn all_types(max_nodes: usize, maybe: bool) -> Vec<Ty> {
    let mut memo = vec![];
    let mut out = vec![];
    for n in 1..=max_nodes {
        out.extend(types_exact(n, maybe, &mut memo));
    }
    out
}

#[derive(Clone, Debug, PartialEq)]
pub enum RV {
    Y(u8),
    B(bool),
    N(i16),
    Q(u16),
    I(i32),
    U(u32),
    X(i64),
    T(u64),
    /// f64 as bits (bitwise comparison)
    D(u64),
    S(String),
    O(String),
    G(String),
    V(Box<(Ty, RV)>),
    /// index into the case's fd table
    H(u32),
    Array(Ty, Vec<RV>),
    Dict(Ty, Ty, Vec<(RV, RV)>),
    Struct(Vec<RV>),
    Maybe(Ty, Option<Box<RV>>),
}

impl RV {
    pub fn ty(&self) -> Ty {
        match self {
            RV::Y(_) => Ty::Y,
            RV::B(_) => Ty::B,
            RV::N(_) => Ty::N,
            RV::Q(_) => Ty::Q,
            RV::I(_) => Ty::I,
            RV::U(_) => Ty::U,
            RV::X(_) => Ty::X,
            RV::T(_) => Ty::T,
            RV::D(_) => Ty::D,
            RV::S(_) => Ty::S,
            RV::O(_) => Ty::O,
            RV::G(_) => Ty::G,
            RV::V(_) => Ty::V,
            RV::H(_) => Ty::H,
            RV::Array(e, _) => Ty::Array(Box::new(e.clone())),
            RV::Dict(k, v, _) => Ty::Dict(Box::new(k.clone()), Box::new(v.clone())),
            RV::Struct(fs) => Ty::Struct(fs.iter().map(|f| f.ty()).collect()),
            RV::Maybe(e, _) => Ty::Maybe(Box::new(e.clone())),
        }
    }
    /// Short textual form for samples and replay files.
    pub fn show(&self) -> String {
        match self {
            RV::Y(v) => format!("{v}y"),
            RV::B(v) => format!("{v}"),
            RV::N(v) => format!("{v}n"),
            RV::Q(v) => format!("{v}q"),
            RV::I(v) => format!("{v}i"),
            RV::U(v) => format!("{v}u"),
            RV::X(v) => format!("{v}x"),
            RV::T(v) => format!("{v}t"),
            RV::D(v) => format!("{:?}d", f64::from_bits(*v)),
            RV::S(v) => format!("{v:?}"),
            RV::O(v) => format!("o{v:?}"),
            RV::G(v) => format!("g{v:?}"),
            RV::V(b) => format!("<{}:{}>", b.0.sig(), b.1.show()),
            RV::H(v) => format!("fd#{v}"),
            RV::Array(_, xs) => format!(
                "[{}]",
                xs.iter().map(|x| x.show()).collect::<Vec<_>>().join(",")
            ),
            RV::Dict(_, _, xs) => format!(
                "{{{}}}",
                xs.iter()
                    .map(|(k, v)| format!("{}:{}", k.show(), v.show()))
                    .collect::<Vec<_>>()
                    .join(",")
            ),
            RV::Struct(xs) => format!(
                "({})",
                xs.iter().map(|x| x.show()).collect::<Vec<_>>().join(",")
            ),
            RV::Maybe(_, None) => "nothing".into(),
            RV::Maybe(_, Some(x)) => format!("just {}", x.show()),
        }
    }
    pub fn max_fd_index(&self) -> Option<u32> {
        match self {
            RV::H(i) => Some(*i),
            RV::V(b) => b.1.max_fd_index(),
            RV::Array(_, xs) | RV::Struct(xs) => xs.iter().filter_map(|x| x.max_fd_index()).max(),
            RV::Dict(_, _, xs) => xs
                .iter()
                .flat_map(|(k, v)| [k.max_fd_index(), v.max_fd_index()])
                .flatten()
                .max(),
            RV::Maybe(_, Some(x)) => x.max_fd_index(),
            _ => None,
        }
    }
}

/// Base-choice selection: keep the list within `cap` values (first, last, then the others in order).
fn cap_list(mut v: Vec<RV>, cap: usize, capped: &mut bool) -> Vec<RV> {
    if v.len() > cap {
        *capped = true;
        let last = v.pop().unwrap();
        v.truncate(cap.saturating_sub(1).max(1));
        v.push(last);
    }
    v
}

/// Product of per-child value lists; full if ≤ cap, otherwise base-choice (all-first, all-last,
/// each child varied alone over its whole list).
fn product_or_base_choice(lists: &[Vec<RV>], cap: usize, capped: &mut bool) -> Vec<Vec<RV>> {
    let total: usize = lists.iter().map(|l| l.len()).product();
    let mut out = vec![];
    if total <= cap {
        let dims: Vec<usize> = lists.iter().map(|l| l.len()).collect();
        vcommon::enumerate::product(&dims, |idx| {
            out.push(idx.iter().enumerate().map(|(i, j)| lists[i][*j].clone()).collect());
        });
    } else {
        *capped = true;
        let first: Vec<RV> = lists.iter().map(|l| l[0].clone()).collect();
        let last: Vec<RV> = lists.iter().map(|l| l[l.len() - 1].clone()).collect();
        out.push(first.clone());
        out.push(last);
        for (i, l) in lists.iter().enumerate() {
            for v in l.iter().skip(1) {
                let mut c = first.clone();
                c[i] = v.clone();
                if !out.contains(&c) {
                    out.push(c);
                }
            }
        }
    }
    out
}

pub struct Domain {
    /// cap on the number of values per (sub)type
    pub cap: usize,
    /// types allowed as variant payloads
    pub variant_payloads: Vec<Ty>,
    /// include NaN / infinities
    pub exotic_floats: bool,
}

impl Domain {
    pub fn standard(cap: usize) -> Self {
        Self {
            cap,
            variant_payloads: all_types(2, false),
            exotic_floats: true,
        }
    }
}

/// All values of `ty` over the small leaf domains. Sets `capped` when a product was reduced to
/// base-choice coverage.
pub fn values(ty: &Ty, dom: &Domain, capped: &mut bool) -> Vec<RV> {
    values_depth(ty, dom, capped, 0)
}

fn values_depth(ty: &Ty, dom: &Domain, capped: &mut bool, vdepth: usize) -> Vec<RV> {
    let v = match ty {
        Ty::Y => vec![RV::Y(0), RV::Y(1), RV::Y(255)],
        Ty::B => vec![RV::B(false), RV::B(true)],
        Ty::N => vec![RV::N(0), RV::N(1), RV::N(-1), RV::N(i16::MIN), RV::N(i16::MAX)],
        Ty::Q => vec![RV::Q(0), RV::Q(1), RV::Q(u16::MAX)],
        Ty::I => vec![RV::I(0), RV::I(1), RV::I(-1), RV::I(i32::MIN), RV::I(i32::MAX)],
        Ty::U => vec![RV::U(0), RV::U(1), RV::U(u32::MAX)],
        Ty::X => vec![RV::X(0), RV::X(1), RV::X(-1), RV::X(i64::MIN), RV::X(i64::MAX)],
        Ty::T => vec![RV::T(0), RV::T(1), RV::T(u64::MAX)],
        Ty::D => {
            let mut v = vec![
                RV::D(0.0f64.to_bits()),
                RV::D((-0.0f64).to_bits()),
                RV::D(1.5f64.to_bits()),
            ];
            if dom.exotic_floats {
                v.push(RV::D(f64::NAN.to_bits()));
                v.push(RV::D(f64::INFINITY.to_bits()));
            }
            v
        }
        Ty::S => vec![RV::S("".into()), RV::S("a".into()), RV::S("é/€".into())],
        Ty::O => vec![RV::O("/".into()), RV::O("/a".into()), RV::O("/a/b".into())],
        Ty::G => vec![RV::G("".into()), RV::G("i".into()), RV::G("a{sv}".into())],
        Ty::H => vec![RV::H(0), RV::H(1)],
        Ty::V => {
            let mut out = vec![];
            if vdepth >= 2 {
                out.push(RV::V(Box::new((Ty::Y, RV::Y(1)))));
            } else {
                for p in &dom.variant_payloads {
                    let vals = values_depth(p, dom, capped, vdepth + 1);
                    // first and last value of every payload type
                    out.push(RV::V(Box::new((p.clone(), vals[0].clone()))));
                    if vals.len() > 1 {
                        out.push(RV::V(Box::new((p.clone(), vals[vals.len() - 1].clone()))));
                    }
                }
            }
            out
        }
        Ty::Array(e) => {
            let ev = values_depth(e, dom, capped, vdepth);
            let mut out = vec![RV::Array((**e).clone(), vec![])];
            for x in &ev {
                out.push(RV::Array((**e).clone(), vec![x.clone()]));
            }
            for (i, x) in ev.iter().enumerate() {
                let y = &ev[(i + 1) % ev.len()];
                out.push(RV::Array((**e).clone(), vec![x.clone(), y.clone()]));
            }
            out
        }
        Ty::Dict(k, v) => {
            let kv = values_depth(k, dom, capped, vdepth);
            let vv = values_depth(v, dom, capped, vdepth);
            let mut out = vec![RV::Dict((**k).clone(), (**v).clone(), vec![])];
            for (i, key) in kv.iter().enumerate() {
                out.push(RV::Dict(
                    (**k).clone(),
                    (**v).clone(),
                    vec![(key.clone(), vv[i % vv.len()].clone())],
                ));
            }
            // NaN keys etc. are not distinct-safe; use distinct consecutive keys
            if kv.len() >= 2 {
                for i in 0..kv.len() {
                    let (k0, k1) = (&kv[i], &kv[(i + 1) % kv.len()]);
                    if k0 == k1 {
                        continue;
                    }
                    out.push(RV::Dict(
                        (**k).clone(),
                        (**v).clone(),
                        vec![
                            (k0.clone(), vv[i % vv.len()].clone()),
                            (k1.clone(), vv[(i + 1) % vv.len()].clone()),
                        ],
                    ));
                }
            }
            out
        }
        Ty::Struct(fs) => {
            let lists: Vec<Vec<RV>> = fs.iter().map(|f| values_depth(f, dom, capped, vdepth)).collect();
            product_or_base_choice(&lists, dom.cap, capped)
                .into_iter()
                .map(RV::Struct)
                .collect()
        }
        Ty::Maybe(e) => {
            let ev = values_depth(e, dom, capped, vdepth);
            let mut out = vec![RV::Maybe((**e).clone(), None)];
            for x in ev {
                out.push(RV::Maybe((**e).clone(), Some(Box::new(x))));
            }
            out
        }
    };
    cap_list(v, dom.cap, capped)
}

// ------------------------------------------------------------------------------------------
// fds
// ------------------------------------------------------------------------------------------

/// A table of distinct anonymous files used as the payload of `h` values in one case.
pub struct FdTable {
    pub fds: Vec<OwnedFd>,
}

impl FdTable {
    pub fn new(n: usize) -> Self {
        let fds = (0..n)
            .map(|i| {
                let name = std::ffi::CString::new(format!("zv-fd-{i}")).unwrap();
                let fd = unsafe { libc::memfd_create(name.as_ptr(), 0) };
                assert!(fd >= 0, "memfd_create failed");
                unsafe { OwnedFd::from_raw_fd(fd) }
            })
            .collect();
        Self { fds }
    }
    pub fn inode(fd: &impl AsRawFd) -> u64 {
        let mut st: libc::stat = unsafe { std::mem::zeroed() };
        unsafe { libc::fstat(fd.as_raw_fd(), &mut st) };
        st.st_ino as u64
    }
}

// ------------------------------------------------------------------------------------------
// conversion to / from zvariant::Value (public constructors only)
// ------------------------------------------------------------------------------------------

pub fn zsig(ty: &Ty) -> Signature {
    Signature::try_from(ty.sig().as_str()).expect("harness type has a valid signature")
}

pub fn to_value<'a>(rv: &RV, fds: &'a FdTable) -> Result<Value<'a>, String> {
    Ok(match rv {
        RV::Y(v) => Value::U8(*v),
        RV::B(v) => Value::Bool(*v),
        RV::N(v) => Value::I16(*v),
        RV::Q(v) => Value::U16(*v),
        RV::I(v) => Value::I32(*v),
        RV::U(v) => Value::U32(*v),
        RV::X(v) => Value::I64(*v),
        RV::T(v) => Value::U64(*v),
        RV::D(v) => Value::F64(f64::from_bits(*v)),
        RV::S(v) => Value::Str(v.clone().into()),
        RV::O(v) => Value::ObjectPath(ObjectPath::try_from(v.clone()).map_err(|e| e.to_string())?),
        RV::G(v) => Value::Signature(Signature::try_from(v.as_str()).map_err(|e| e.to_string())?),
        RV::V(b) => Value::Value(Box::new(to_value(&b.1, fds)?)),
        RV::H(i) => {
            use std::os::fd::AsFd;
            Value::Fd(zvariant::Fd::from(fds.fds[*i as usize].as_fd()))
        }
        RV::Array(e, xs) => {
            let mut a = Array::new(&zsig(e));
            for x in xs {
                a.append(to_value(x, fds)?).map_err(|e| e.to_string())?;
            }
            Value::Array(a)
        }
        RV::Dict(k, v, xs) => {
            let mut d = Dict::new(&zsig(k), &zsig(v));
            for (kk, vv) in xs {
                d.append(to_value(kk, fds)?, to_value(vv, fds)?)
                    .map_err(|e| e.to_string())?;
            }
            Value::Dict(d)
        }
        RV::Struct(xs) => {
            let mut b = StructureBuilder::new();
            for x in xs {
                b.push_value(to_value(x, fds)?);
            }
            Value::Structure(b.build().map_err(|e| e.to_string())?)
        }
        #[cfg(feature = "gvariant")]
        RV::Maybe(e, x) => match x {
            None => Value::Maybe(zvariant::Maybe::nothing(&zsig(e))),
            Some(x) => Value::Maybe(zvariant::Maybe::just(to_value(x, fds)?)),
        },
        #[cfg(not(feature = "gvariant"))]
        RV::Maybe(..) => return Err("maybe needs the gvariant feature".into()),
    })
}

/// Read a `zvariant::Value` back into the harness tree. `fd_index` maps a raw fd to a table index.
pub fn from_value(v: &Value<'_>, fd_index: &dyn Fn(i32) -> u32) -> Result<RV, String> {
    Ok(match v {
        Value::U8(x) => RV::Y(*x),
        Value::Bool(x) => RV::B(*x),
        Value::I16(x) => RV::N(*x),
        Value::U16(x) => RV::Q(*x),
        Value::I32(x) => RV::I(*x),
        Value::U32(x) => RV::U(*x),
        Value::I64(x) => RV::X(*x),
        Value::U64(x) => RV::T(*x),
        Value::F64(x) => RV::D(x.to_bits()),
        Value::Str(s) => RV::S(s.as_str().to_string()),
        Value::ObjectPath(p) => RV::O(p.as_str().to_string()),
        Value::Signature(s) => RV::G(s.to_string_no_parens()),
        Value::Value(inner) => {
            let r = from_value(inner, fd_index)?;
            RV::V(Box::new((r.ty(), r)))
        }
        Value::Fd(fd) => RV::H(fd_index(fd.as_raw_fd())),
        Value::Array(a) => {
            let e = parse_ty(&a.element_signature().to_string())
                .ok_or_else(|| format!("array element signature {}", a.element_signature()))?;
            let xs = a
                .inner()
                .iter()
                .map(|x| from_value(x, fd_index))
                .collect::<Result<Vec<_>, _>>()?;
            RV::Array(e, xs)
        }
        Value::Dict(d) => {
            let full = d.signature().to_string();
            let t = parse_ty(&full).ok_or_else(|| format!("dict signature {full}"))?;
            let Ty::Dict(k, vt) = t else {
                return Err(format!("dict signature {full}"));
            };
            let xs = d
                .iter()
                .map(|(kk, vv)| Ok((from_value(kk, fd_index)?, from_value(vv, fd_index)?)))
                .collect::<Result<Vec<_>, String>>()?;
            RV::Dict(*k, *vt, xs)
        }
        Value::Structure(s) => RV::Struct(
            s.fields()
                .iter()
                .map(|x| from_value(x, fd_index))
                .collect::<Result<Vec<_>, _>>()?,
        ),
        #[cfg(feature = "gvariant")]
        Value::Maybe(m) => {
            let e = parse_ty(&m.value_signature().to_string())
                .ok_or_else(|| format!("maybe signature {}", m.value_signature()))?;
            match m.inner() {
                None => RV::Maybe(e, None),
                Some(x) => RV::Maybe(e, Some(Box::new(from_value(x, fd_index)?))),
            }
        }
    })
}

/// Compare two values with dict entries as multisets and floats bitwise.
pub fn rv_eq(a: &RV, b: &RV) -> bool {
    match (a, b) {
        (RV::Dict(k1, v1, x1), RV::Dict(k2, v2, x2)) => {
            if k1 != k2 || v1 != v2 || x1.len() != x2.len() {
                return false;
            }
            let mut used = vec![false; x2.len()];
            'outer: for (ka, va) in x1 {
                for (i, (kb, vb)) in x2.iter().enumerate() {
                    if !used[i] && rv_eq(ka, kb) && rv_eq(va, vb) {
                        used[i] = true;
                        continue 'outer;
                    }
                }
                return false;
            }
            true
        }
        (RV::Array(e1, x1), RV::Array(e2, x2)) => {
            e1 == e2 && x1.len() == x2.len() && x1.iter().zip(x2).all(|(p, q)| rv_eq(p, q))
        }
        (RV::Struct(x1), RV::Struct(x2)) => {
            x1.len() == x2.len() && x1.iter().zip(x2).all(|(p, q)| rv_eq(p, q))
        }
        (RV::V(p), RV::V(q)) => p.0 == q.0 && rv_eq(&p.1, &q.1),
        (RV::Maybe(e1, x1), RV::Maybe(e2, x2)) => {
            e1 == e2
                && match (x1, x2) {
                    (None, None) => true,
                    (Some(p), Some(q)) => rv_eq(p, q),
                    _ => false,
                }
        }
        _ => a == b,
    }
}
