//! C03 — the D-Bus decoder accepts exactly the valid encodings.
//!
//! Spaces (all enumerated completely, fixed order):
//! (a) for every single complete type with ≤ 2 signature nodes: EVERY byte string of length ≤ L over
//!     the byte alphabet {00,01,02,04,08,'a','/',80,ff}, plus every string of length exactly L
//!     followed by 8 zero bytes (so that 8-byte values and short strings/arrays complete), both
//!     byte orders, several start offsets;
//! (b) for every reference encoding of the C01 corpus (types ≤ 3 nodes, `rv::values`): every
//!     single-byte substitution over the alphabet at every position and every truncation (thorough:
//!     also every pair of substitutions within an 8-byte window — evaluated, but not counted in
//!     `distinct_nontrivial`);
//! (c) every string of length ≤ K over the signature alphabet "ybisogvha(){}" used as the
//!     signature of a variant (body: the reference encoding of the type's first value when the
//!     signature is a valid single complete type, zero bytes otherwise), as the value of a `g`, and
//!     as the value of a `g` inside a variant.
//! (d) a byte inside n nested containers for n around the limits (64 in total): variants only, and
//!     a variant / array / structure cycle; decoded as a `Value` on the typed route.
//! Oracle: each real decode route (`variant`: as a `zvariant::Value` after a variant header,
//! `dyn`: typed Rust targets / `Array` / `Structure`, `serde`: generic serde seed — see zvx.rs)
//! succeeds ⇔ `refdbus::decode` accepts a prefix of the bytes; on success the value and the
//! consumed length agree. Trailing bytes are allowed, floats compare bitwise, repeated dict keys
//! are normalised on both sides, the 64 MiB array limit is not judged.

use serde_json::json;
use vcommon::{hex, unhex, Args, Report, Violation};

use crate::{
    refdbus::{self, Reject},
    rv::{self, FdTable, Ty, RV},
    zvx::{self, Acc, ALPHABET},
};

const CAP: usize = 64;
const SIG_ALPHABET: &[u8] = b"ybisogvha(){}";

fn kind(ty: &Ty) -> &'static str {
    match ty {
        Ty::Array(_) => "array",
        Ty::Dict(..) => "dict",
        Ty::Struct(_) => "struct",
        Ty::V => "variant",
        Ty::Maybe(_) => "maybe",
        Ty::H => "fd",
        Ty::S | Ty::O | Ty::G => "string-like",
        Ty::B => "bool",
        _ => "fixed",
    }
}

/// Why the reference rejects a signature string (only used to give violations a narrow identity).
fn sig_defect(s: &str) -> &'static str {
    if refdbus::valid_signature(s) {
        return "valid";
    }
    // would it be valid if dict keys were allowed to be any complete type?
    fn relaxed(b: &[u8], i: &mut usize) -> bool {
        let Some(c) = b.get(*i) else { return false };
        *i += 1;
        match c {
            b'y' | b'b' | b'n' | b'q' | b'i' | b'u' | b'x' | b't' | b'd' | b's' | b'o' | b'g' | b'v' | b'h' => true,
            b'a' => {
                if b.get(*i) == Some(&b'{') {
                    *i += 1;
                    if !relaxed(b, i) || !relaxed(b, i) {
                        return false;
                    }
                    if b.get(*i) != Some(&b'}') {
                        return false;
                    }
                    *i += 1;
                    true
                } else {
                    relaxed(b, i)
                }
            }
            b'(' => {
                let mut n = 0;
                while b.get(*i) != Some(&b')') {
                    if !relaxed(b, i) {
                        return false;
                    }
                    n += 1;
                }
                *i += 1;
                n > 0
            }
            _ => false,
        }
    }
    let b = s.as_bytes();
    let mut i = 0;
    let mut ok = true;
    while i < b.len() {
        if !relaxed(b, &mut i) {
            ok = false;
            break;
        }
    }
    if ok {
        "dict-key-not-basic"
    } else {
        "malformed"
    }
}

/// Narrow class of a reference rejection.
fn reject_class(info: &refdbus::RejectInfo, bytes: &[u8]) -> (String, Option<&'static str>) {
    match info.reject {
        Reject::NoNul => ("string-terminator".into(), None),
        Reject::Short if info.note == "terminator" => ("string-terminator".into(), None),
        Reject::Short => ("truncated".into(), None),
        Reject::Padding => ("padding".into(), None),
        Reject::Bool => ("bool".into(), None),
        Reject::Utf8 => ("utf8".into(), None),
        Reject::InteriorNul => ("interior-nul".into(), None),
        Reject::ObjectPath => ("object-path".into(), None),
        Reject::Signature | Reject::VariantSignature => {
            // recover the signature string the reference was looking at: it ends right before the
            // terminator that precedes fail_pos
            let end = info.pos.saturating_sub(1).min(bytes.len());
            let mut start = end;
            while start > 0 && end - (start - 1) <= 255 && bytes[start - 1] as usize != end - start {
                start -= 1;
            }
            let s = std::str::from_utf8(&bytes[start.min(end)..end]).unwrap_or("");
            if info.reject == Reject::Signature {
                ("signature".into(), Some(sig_defect(s)))
            } else if s.is_empty() {
                ("variant-signature".into(), Some("empty"))
            } else {
                ("variant-signature".into(), Some("several-complete-types"))
            }
        }
        Reject::ArrayBoundary => ("array-boundary".into(), None),
        Reject::ArrayTooLong => ("truncated".into(), None),
        Reject::Depth => ("depth".into(), None),
        Reject::FdIndex => ("fd-index".into(), None),
    }
}

fn key_eq(a: &RV, b: &RV) -> bool {
    match (a, b) {
        (RV::D(x), RV::D(y)) => x == y || f64::from_bits(*x) == f64::from_bits(*y),
        _ => zvx::rv_same(a, b),
    }
}

/// Repeated keys: keep the first key, the last value (what a map that overwrites does). Keys are
/// compared bitwise, floats additionally numerically (0.0 and -0.0 are one key for zvariant's Dict).
fn norm_dicts(v: &RV) -> RV {
    match v {
        RV::Dict(k, vt, xs) => {
            let mut out: Vec<(RV, RV)> = vec![];
            for (kk, vv) in xs {
                let kk = norm_dicts(kk);
                let vv = norm_dicts(vv);
                if let Some(slot) = out.iter_mut().find(|(k0, _)| key_eq(k0, &kk)) {
                    slot.1 = vv;
                } else {
                    out.push((kk, vv));
                }
            }
            RV::Dict(k.clone(), vt.clone(), out)
        }
        RV::Array(e, xs) => RV::Array(e.clone(), xs.iter().map(norm_dicts).collect()),
        RV::Struct(xs) => RV::Struct(xs.iter().map(norm_dicts).collect()),
        RV::V(b) => RV::V(Box::new((b.0.clone(), norm_dicts(&b.1)))),
        _ => v.clone(),
    }
}

struct Unit<'a> {
    ty: &'a Ty,
    /// variant header `[len] sig \0` for the `variant` route
    hdr: Vec<u8>,
    has_fd: bool,
}

impl<'a> Unit<'a> {
    fn new(ty: &'a Ty) -> Self {
        let sig = ty.sig();
        let mut hdr = vec![sig.len() as u8];
        hdr.extend_from_slice(sig.as_bytes());
        hdr.push(0);
        Unit {
            ty,
            hdr,
            has_fd: *ty == Ty::V || ty.contains(&|t| matches!(t, Ty::H | Ty::V)),
        }
    }
}

struct Opts<'a> {
    only_route: Option<&'a str>,
    verbose: bool,
}

/// Evaluate one input on all routes.
#[allow(clippy::too_many_arguments)]
fn evaluate(
    acc: &mut Acc,
    part: &'static str,
    u: &Unit<'_>,
    bytes: &[u8],
    be: bool,
    base: usize,
    fds: &FdTable,
    scratch: &mut Vec<u8>,
    opts: &Opts<'_>,
) {
    let ty = u.ty;
    let n_fds = zvx::N_FDS;
    let reference = refdbus::decode_ex(ty, bytes, be, base, n_fds as u32);
    if opts.verbose {
        match &reference {
            Ok((v, n)) => println!("reference: accepts, value {} consumed {n}", v.show()),
            Err(i) => println!(
                "reference: rejects ({:?}) while reading {} of type `{}` at byte {}",
                i.reject, i.note, i.ty, i.pos
            ),
        }
    }
    if let Err(i) = &reference {
        // The statement does not mention the 64 MiB array limit, so it is not judged as such. In a
        // buffer shorter than that an array announcing more than 64 MiB is invalid anyway: its
        // elements cannot all be there (class `truncated`). Longer buffers are not judged.
        if i.reject == Reject::ArrayTooLong && bytes.len() >= (1 << 26) {
            acc.outcome("not-judged:array-length-limit");
            return;
        }
    }
    // non-trivial: accepted, or rejected for a reason other than running out of input
    let ref_norm = reference.as_ref().ok().map(|(v, n)| (norm_dicts(v), *n));
    // (pair mutants are evaluated but not entered into the distinct-case set: it would not fit in memory)
    match &reference {
        _ if part == "b:pair" => {}
        Ok((_, n)) => {
            acc.nontrivial.insert(vcommon::hash64(&(ty.sig(), be, base % 8, "ok", &bytes[..*n])));
        }
        Err(i) if i.reject != Reject::Short => {
            let upto = (i.pos + 1).min(bytes.len());
            acc.nontrivial
                .insert(vcommon::hash64(&(ty.sig(), be, base % 8, format!("{:?}", i.reject), &bytes[..upto])));
        }
        _ => {}
    }
    let fdmap = |raw: i32| zvx::fd_index(fds, raw);
    let fdmap: zvx::FdMap<'_> = if u.has_fd { &fdmap } else { &|_| u32::MAX };

    let routes: [&str; 3] = ["variant", "dyn", "serde"];
    for route in routes {
        if opts.only_route.map(|o| o != route).unwrap_or(false) {
            continue;
        }
        if route == "dyn" && !zvx::dyn_decodable(ty) {
            continue;
        }
        acc.evals += 1;
        let (real, hdr_len) = if route == "variant" {
            let h = u.hdr.len();
            // start the Data so that the body begins at an absolute position ≡ base (mod 8); only
            // the position modulo 8 matters (largest alignment)
            let p0 = (base % 8 + 8 * h.div_ceil(8) - h) % 8;
            scratch.clear();
            scratch.extend_from_slice(&u.hdr);
            scratch.extend_from_slice(bytes);
            let d = zvx::data_with_fds(scratch, zvx::ctxt(false, be, p0), fds, n_fds);
            let r = zvx::dec_variant(&d, fdmap).map(|(v, n)| match v {
                RV::V(b) => (b.1, b.0, n),
                other => (other, Ty::V, n),
            });
            (r.map(|(v, t, n)| (v, Some(t), n)), h)
        } else {
            let d = zvx::data_with_fds(bytes, zvx::ctxt(false, be, base), fds, n_fds);
            let r = if route == "dyn" { zvx::dec_dyn(ty, &d, fdmap) } else { zvx::dec_serde(ty, &d, fdmap) };
            (r.map(|(v, n)| (v, None, n)), 0)
        };
        if opts.verbose {
            match &real {
                Ok((v, t, n)) => println!(
                    "real route {route}: accepts, value {}{} consumed {}{}",
                    v.show(),
                    t.as_ref().map(|t| format!(" of type `{}`", t.sig())).unwrap_or_default(),
                    n - hdr_len.min(*n),
                    if hdr_len > 0 { format!(" (+{hdr_len} header)") } else { String::new() }
                ),
                Err(e) => println!("real route {route}: rejects: {e}"),
            }
        }
        let replay = || {
            json!({"sig": ty.sig(), "bytes": hex(bytes), "big_endian": be, "offset": base, "route": route, "part": part})
        };
        let what = || {
            format!(
                "type `{}` bytes {} {} offset {base} route {route} [{part}]",
                ty.sig(),
                hex(bytes),
                if be { "BE" } else { "LE" }
            )
        };
        match (&reference, &real) {
            (Err(info), Err(e)) => {
                if zvx::is_panic(e) {
                    acc.outcome(&format!("{route}:panic"));
                    acc.violation(
                        Violation::new(
                            "panic-instead-of-error",
                            format!("{}: invalid ({:?}) and the real decoder panicked: {e}", what(), info.reject),
                            replay(),
                        )
                        .feat("route", route)
                        .feat("where", e.split(':').nth(0).unwrap_or("").trim_start_matches("PANIC at ")),
                    );
                } else {
                    acc.outcome(&format!("{route}:both-reject:{}", reject_class(info, bytes).0));
                }
            }
            (Ok((_, _)), Ok((v, t, n))) => {
                let (rv_ref, n_ref) = ref_norm.as_ref().unwrap();
                let mut ok = true;
                if !zvx::rv_same(&norm_dicts(v), rv_ref) || t.as_ref().map(|t| t != ty).unwrap_or(false) {
                    ok = false;
                    if std::env::var_os("ZV_TRACE").is_some() {
                        eprintln!("TRACE value-differs {route} `{}` {} real {} ref {}", ty.sig(), hex(bytes), v.show(), rv_ref.show());
                    }
                    let mut viol = Violation::new(
                        "value-differs",
                        format!("{}: real decodes {} but the encoding denotes {}", what(), v.show(), rv_ref.show()),
                        replay(),
                    )
                    .feat("route", route)
                    .feat("kind", kind(ty));
                    if let (Ty::Dict(k, _), RV::Dict(_, _, got), RV::Dict(_, _, want)) = (ty, v, rv_ref) {
                        viol = viol.feat("key", k.sig()).feat(
                            "entries",
                            match got.len().cmp(&want.len()) {
                                std::cmp::Ordering::Less => "fewer",
                                std::cmp::Ordering::Equal => "same-count",
                                std::cmp::Ordering::Greater => "more",
                            },
                        );
                    }
                    acc.violation(viol);
                }
                if *n != n_ref + hdr_len {
                    ok = false;
                    acc.violation(
                        Violation::new(
                            "consumed-differs",
                            format!("{}: real reports {} bytes consumed, the encoding is {n_ref} bytes long", what(), n - hdr_len.min(*n)),
                            replay(),
                        )
                        .feat("route", route)
                        .feat("kind", kind(ty)),
                    );
                }
                acc.outcome(&format!("{route}:both-accept{}", if ok { "" } else { ":differ" }));
            }
            (Err(info), Ok((v, _, n))) => {
                let (class, form) = reject_class(info, bytes);
                acc.outcome(&format!("{route}:ACCEPTS-INVALID:{class}"));
                // was the offending item decoded by zvariant's Value machinery or by a typed target?
                let via = if route == "variant"
                    || info.in_variant
                    || (route == "dyn" && matches!(ty, Ty::Array(_) | Ty::Struct(_) | Ty::V))
                {
                    "value"
                } else {
                    "typed"
                };
                let mut viol = Violation::new(
                    "accepts-invalid",
                    format!(
                        "{}: not a valid encoding ({:?} while reading {} of `{}` at byte {}) but the real decoder accepts it as {} ({} bytes)",
                        what(), info.reject, info.note, info.ty, info.pos, v.show(), n - hdr_len.min(*n)
                    ),
                    replay(),
                )
                .feat("route", route)
                .feat("class", &class)
                .feat("at", info.ty.chars().next().unwrap_or('?'))
                .feat("via", via);
                if let Some(f) = form {
                    viol = viol.feat("form", f);
                }
                acc.violation(viol);
            }
            (Ok((rv_ref, n_ref)), Err(e)) => {
                acc.outcome(&format!("{route}:REJECTS-VALID"));
                acc.violation(
                    Violation::new(
                        if zvx::is_panic(e) { "panic-on-valid" } else { "rejects-valid" },
                        format!(
                            "{}: a valid encoding of {} ({n_ref} bytes) but the real decoder fails: {e}",
                            what(),
                            rv_ref.show()
                        ),
                        replay(),
                    )
                    .feat("route", route)
                    .feat("kind", kind(ty))
                    .feat("error", zvx::err_class(e)),
                );
            }
        }
    }
}

// ------------------------------------------------------------------------------------------
// part (a)
// ------------------------------------------------------------------------------------------

fn part_a(report: &Report, args: &Args) {
    let l = args.tier.pick(5, 6);
    let offsets: &[usize] = args.tier.pick(&[0, 3, 6], &[0, 1, 3, 6]);
    let types = rv::all_types(2, false);
    let k = ALPHABET.len();
    let total = vcommon::enumerate::count_strings(k, l);
    let first_full = total - k.pow(l as u32); // index of the first string of length exactly L
    const BLOCK: usize = 1 << 15;
    let mut units = vec![];
    for ti in 0..types.len() {
        for be in [false, true] {
            for &off in offsets {
                let mut s = 0;
                while s < total {
                    units.push((ti, be, off, s, (s + BLOCK).min(total)));
                    s += BLOCK;
                }
            }
        }
    }
    report.set("a_types", json!(types.len()));
    report.set("a_max_len", json!(l));
    report.set("a_strings_per_type_endian_offset", json!(total + (total - first_full)));
    report.set("a_offsets", json!(offsets));
    let opts = Opts { only_route: None, verbose: false };
    vcommon::par_for(units.len(), 1, |i| {
        let (ti, be, off, s, e) = units[i];
        let u = Unit::new(&types[ti]);
        let mut acc = Acc::default();
        let mut idx = vec![];
        let mut bytes: Vec<u8> = vec![];
        let mut scratch = vec![];
        zvx::with_fds(|fds| {
            for n in s..e {
                vcommon::enumerate::nth_string(k, n, &mut idx);
                bytes.clear();
                bytes.extend(idx.iter().map(|j| ALPHABET[*j]));
                evaluate(&mut acc, "a", &u, &bytes, be, off, fds, &mut scratch, &opts);
                if n >= first_full {
                    bytes.extend_from_slice(&[0u8; 8]);
                    evaluate(&mut acc, "a+zeros", &u, &bytes, be, off, fds, &mut scratch, &opts);
                }
            }
        });
        acc.flush(report);
    });
}

// ------------------------------------------------------------------------------------------
// part (b)
// ------------------------------------------------------------------------------------------

fn part_b(report: &Report, args: &Args) {
    let corpus = zvx::corpus(3, false, CAP);
    let offsets: &[usize] = args.tier.pick(&[0, 1, 4, 7], &[0, 1, 3, 4, 6, 7]);
    let pairs = args.tier.pick(false, true);
    report.set("b_types", json!(corpus.items.len()));
    report.set("b_seed_values", json!(corpus.items.iter().map(|(_, v)| v.len()).sum::<usize>()));
    report.set("b_offsets", json!(offsets));
    if corpus.capped_types > 0 {
        report.cap(format!(
            "part (b): seed value lists of {} of {} types were reduced (per-type cap {CAP})",
            corpus.capped_types,
            corpus.items.len()
        ));
    }
    let items = &corpus.items;
    let opts = Opts { only_route: None, verbose: false };
    vcommon::par_for(items.len(), 1, |i| {
        let (ty, vals) = &items[i];
        let u = Unit::new(ty);
        let mut acc = Acc::default();
        let mut scratch = vec![];
        let mut seen = std::collections::HashSet::new();
        zvx::with_fds(|fds| {
            for v in vals {
                for be in [false, true] {
                    for &off in offsets {
                        let enc = refdbus::encode(v, be, off).buf;
                        if !seen.insert((enc.clone(), be, off % 8)) {
                            continue;
                        }
                        acc.count("b_seed_encodings", 1);
                        // the unmodified encoding
                        evaluate(&mut acc, "b:seed", &u, &enc, be, off, fds, &mut scratch, &opts);
                        // truncations
                        for n in 0..enc.len() {
                            evaluate(&mut acc, "b:truncation", &u, &enc[..n], be, off, fds, &mut scratch, &opts);
                        }
                        // single substitutions
                        let mut m = enc.clone();
                        for p in 0..enc.len() {
                            for &a in &ALPHABET {
                                if a == enc[p] {
                                    continue;
                                }
                                m[p] = a;
                                evaluate(&mut acc, "b:substitution", &u, &m, be, off, fds, &mut scratch, &opts);
                                if pairs {
                                    for q in p + 1..(p + 8).min(enc.len()) {
                                        for &b in &ALPHABET {
                                            if b == enc[q] {
                                                continue;
                                            }
                                            m[q] = b;
                                            evaluate(&mut acc, "b:pair", &u, &m, be, off, fds, &mut scratch, &opts);
                                        }
                                        m[q] = enc[q];
                                    }
                                }
                            }
                            m[p] = enc[p];
                        }
                    }
                }
            }
        });
        acc.flush(report);
    });
}

// ------------------------------------------------------------------------------------------
// part (d): nesting around the limits, through variants
// ------------------------------------------------------------------------------------------

/// `n` containers around a byte. `mixed` = cycle variant / array / structure from the outside in
/// (the outermost is a variant, so the static type is `v`); otherwise variants only.
fn nested(n: usize, mixed: bool) -> RV {
    let mut v = RV::Y(7);
    for j in 0..n {
        let kind = if mixed { (n - 1 - j) % 3 } else { 0 };
        v = match kind {
            0 => RV::V(Box::new((v.ty(), v))),
            1 => RV::Array(v.ty(), vec![v]),
            _ => RV::Struct(vec![v]),
        };
    }
    v
}

fn part_d(report: &Report, _args: &Args) {
    let mut cases: Vec<(usize, bool)> = [1usize, 2, 32, 33, 63, 64, 65, 66].iter().map(|n| (*n, false)).collect();
    cases.extend([61usize, 62, 63, 64, 65, 66, 67].iter().map(|n| (*n, true)));
    report.set("d_cases", json!(cases.iter().map(|(n, m)| format!("{n} containers, {}", if *m { "variant/array/structure cycle" } else { "variants only" })).collect::<Vec<_>>()));
    let ty = Ty::V;
    let u = Unit::new(&ty);
    // the `variant` route would put one more container around the value: typed routes only
    let opts = Opts { only_route: Some("dyn"), verbose: false };
    let mut acc = Acc::default();
    let mut scratch = vec![];
    zvx::with_fds(|fds| {
        for (n, mixed) in &cases {
            let v = nested(*n, *mixed);
            for be in [false, true] {
                for off in [0usize, 4] {
                    let enc = refdbus::encode(&v, be, off).buf;
                    acc.count("d_encodings", 1);
                    evaluate(&mut acc, "d:nesting", &u, &enc, be, off, fds, &mut scratch, &opts);
                }
            }
        }
    });
    acc.flush(report);
}

// ------------------------------------------------------------------------------------------
// part (c)
// ------------------------------------------------------------------------------------------

fn part_c(report: &Report, args: &Args) {
    let kmax = args.tier.pick(5, 6);
    let k = SIG_ALPHABET.len();
    let total = vcommon::enumerate::count_strings(k, kmax);
    report.set("c_signature_strings", json!(total));
    report.set("c_max_len", json!(kmax));
    const BLOCK: usize = 1 << 12;
    let n_units = total.div_ceil(BLOCK);
    let tv = Ty::V;
    let tg = Ty::G;
    let opts = Opts { only_route: None, verbose: false };
    let dom = rv::Domain::standard(CAP);
    vcommon::par_for(n_units, 1, |ui| {
        let uv = Unit::new(&tv);
        let ug = Unit::new(&tg);
        let mut acc = Acc::default();
        let mut idx = vec![];
        let mut scratch = vec![];
        zvx::with_fds(|fds| {
            for n in ui * BLOCK..((ui + 1) * BLOCK).min(total) {
                vcommon::enumerate::nth_string(k, n, &mut idx);
                let sig: Vec<u8> = idx.iter().map(|j| SIG_ALPHABET[*j]).collect();
                let s = std::str::from_utf8(&sig).unwrap();
                for be in [false, true] {
                    for off in [0usize, 5] {
                        // as a `g`
                        let mut g = vec![sig.len() as u8];
                        g.extend_from_slice(&sig);
                        g.push(0);
                        evaluate(&mut acc, "c:g", &ug, &g, be, off, fds, &mut scratch, &opts);
                        // as a `g` inside a variant
                        let mut vg = vec![1, b'g', 0];
                        vg.extend_from_slice(&g);
                        evaluate(&mut acc, "c:v-of-g", &uv, &vg, be, off, fds, &mut scratch, &opts);
                        // as the signature of a variant
                        let mut v = g.clone();
                        match rv::parse_ty(s).filter(|_| refdbus::valid_signature(s)) {
                            Some(inner) => {
                                let mut capped = false;
                                let first = rv::values(&inner, &dom, &mut capped).remove(0);
                                let body = refdbus::encode(&first, be, off + v.len());
                                v.extend_from_slice(&body.buf);
                            }
                            None => v.extend_from_slice(&[0u8; 24]),
                        }
                        evaluate(&mut acc, "c:variant-signature", &uv, &v, be, off, fds, &mut scratch, &opts);
                    }
                }
            }
        });
        acc.flush(report);
    });
}

fn replay(path: &str) -> i32 {
    let art = vcommon::load_replay(path);
    let r = &art["replay"];
    let (Some(sig), Some(bytes), Some(be), Some(off)) = (
        r["sig"].as_str(),
        r["bytes"].as_str(),
        r["big_endian"].as_bool(),
        r["offset"].as_u64(),
    ) else {
        vcommon::machinery_failure("C03 replay: malformed artefact");
    };
    let ty = rv::parse_ty(sig).unwrap_or_else(|| vcommon::machinery_failure("C03 replay: bad signature"));
    let bytes = unhex(bytes);
    println!(
        "C03 replay: decode type `{sig}` from {} ({} bytes) {} at offset {off}, {} fds attached",
        hex(&bytes),
        bytes.len(),
        if be { "BE" } else { "LE" },
        zvx::N_FDS
    );
    let u = Unit::new(&ty);
    let mut acc = Acc::default();
    let mut scratch = vec![];
    let opts = Opts { only_route: None, verbose: true };
    zvx::with_fds(|fds| evaluate(&mut acc, "replay", &u, &bytes, be, off as usize, fds, &mut scratch, &opts));
    let wanted = r["route"].as_str();
    let mut hit = false;
    for v in &acc.violations {
        println!("observation: clause={} {}", v.clause, v.detail);
        if wanted.is_none() || v.features.get("route").map(|s| s.as_str()) == wanted {
            hit = true;
        }
    }
    if !hit {
        println!("observation: no clause violated on this case{}", wanted.map(|w| format!(" (route {w})")).unwrap_or_default());
        0
    } else {
        1
    }
}

pub fn main(args: &Args) -> i32 {
    if let Some(p) = &args.replay {
        return replay(p);
    }
    let report = Report::new("C03", args.tier, args.seed, "exploration");
    let only = std::env::var("ZV_C03_PARTS").unwrap_or_else(|_| "abcd".into());
    if only.contains('a') {
        part_a(&report, args);
        report.set("a_wall_s", json!(report.elapsed_s()));
    }
    if only.contains('b') {
        part_b(&report, args);
        report.set("ab_wall_s", json!(report.elapsed_s()));
    }
    if only.contains('c') {
        part_c(&report, args);
    }
    if only.contains('d') {
        part_d(&report, args);
    }
    if only != "abcd" {
        report.cap(format!("only parts `{only}` were run (ZV_C03_PARTS)"));
    }
    // a few deterministic samples
    for (sig, bytes, be, off) in [
        ("s", "0100000061ff", false, 0usize),
        ("ay", "0000000002000000010280", false, 1),
        ("b", "00000002", true, 0),
        ("v", "02797900000000", false, 0),
        ("(yu)", "01ff000001000000", false, 0),
    ] {
        let ty = rv::parse_ty(sig).unwrap();
        let b = unhex(bytes);
        let r = refdbus::decode_ex(&ty, &b, be, off, zvx::N_FDS as u32);
        report.sample(json!({"sig": sig, "bytes": bytes, "big_endian": be, "offset": off,
            "reference": match &r { Ok((v, n)) => format!("accepts {} ({n} bytes)", v.show()), Err(i) => format!("rejects: {:?} ({} of `{}` at byte {})", i.reject, i.note, i.ty, i.pos) }}));
    }
    report.assume("refdbus::decode is the set of valid D-Bus encodings (strict unmarshaller written from the specification; audited against libdbus separately)");
    report.assume("two fds are attached to every input; an `h` whose index is ≥ 2 is not decodable");
    report.assume("repeated dict keys: both sides normalised to first key / last value; `g` values compared modulo one pair of outer parentheses; arrays longer than 64 MiB not judged");
    report.finish(
        "one evaluation = (type, byte string, endian, start offset, decode route); non-trivial = the reference accepts, or rejects for a reason other than running out of input; counted per distinct (type, endian, offset mod 8, verdict, bytes up to the end of the value / the first offending byte)",
        true,
    )
}
