//! Reference GVariant normal-form serializer, written from the GVariant specification
//! ("GVariant Specification 1.0", section 2 "Serialisation Format"), independent of zvariant.
//!
//! Summary of the rules implemented here:
//!
//! * fixed-size basic types: `y` 1 byte; `b` 1 byte (0/1); `n q` 2; `i u h` 4; `x t d` 8; alignment
//!   = size; multi-byte values in the byte order of the serialisation;
//! * `s o g`: alignment 1, the bytes followed by one NUL;
//! * `v`: alignment 8, variable size: the child's serialisation, one NUL, the child's type string;
//! * `mT`: alignment of `T`; Nothing = zero bytes; Just x = x when `T` is fixed-size, x followed
//!   by one zero byte otherwise;
//! * `aT`: alignment of `T`; fixed-size `T`: the elements back to back; otherwise every element
//!   starts at the next multiple of its alignment and a table of framing offsets (the *end*
//!   of every element, relative to the start of the array) follows the last element;
//! * `(...)` and `{kv}`: alignment = largest member alignment (1 for `()`); every member starts at
//!   the next multiple of its alignment; when all members are fixed-size the structure is
//!   fixed-size and is padded at the end to a multiple of its alignment (`()` is one zero byte);
//!   otherwise the end of every variable-size member except the last member is recorded as a
//!   framing offset, the offsets are stored after the last member in *reverse* order, and there
//!   is no trailing padding;
//! * framing offsets are little-endian in every byte order and all offsets of one container have
//!   the same width: the smallest of 1, 2, 4, 8 bytes such that body + table still fits
//!   (body + n·w ≤ 2^(8w) − 1);
//! * `h` is an int32 (index into the fd list, numbered in order of appearance).
//!
//! A serialised value has to start at a multiple of its alignment. `serialize` is given the
//! absolute position of the first output byte and emits zero padding up to that boundary first
//! (zvariant does the same; the specification is silent about unaligned starting positions, so this
//! is a convention of the harness, not part of the oracle: both sides pad with the *reference*
//! alignment or the comparison reports a mismatch in the layout that follows).
//!
//! `Quirks` lets the caller ask "what would the bytes be if the implementation deviated from the
//! specification in exactly this way" — used only to give violations a narrow identity, never to
//! decide whether something is a violation.

use crate::rv::{Ty, RV};

/// Named deviations from the specification (all `false` = the specification).
#[derive(Clone, Copy, Debug, Default, PartialEq, Eq)]
pub struct Quirks {
    /// booleans are written as a 4-byte, 4-aligned integer (the D-Bus layout)
    pub bool_as_u32: bool,
    /// fixed-size structures / dict entries are not padded at the end to their alignment
    pub no_trailing_struct_padding: bool,
    /// the width of the key's framing offset inside a dict entry is chosen from the entry's body
    /// size alone (without counting the offset itself)
    pub dict_entry_offset_width_from_body: bool,
    /// an array of variable-size elements whose body is zero bytes long (all elements empty) is
    /// written without its framing offsets
    pub empty_array_body_drops_offsets: bool,
    /// a variable-size structure whose members occupy zero bytes is written without its framing
    /// offsets
    pub empty_struct_body_drops_offsets: bool,
}

pub const QUIRK_NAMES: [&str; 5] = [
    "bool-as-u32",
    "no-trailing-padding-fixed-struct",
    "dict-entry-offset-width-ignores-offset",
    "empty-array-body-drops-offsets",
    "empty-struct-body-drops-offsets",
];

impl Quirks {
    pub fn from_mask(m: u32) -> Self {
        Quirks {
            bool_as_u32: m & 1 != 0,
            no_trailing_struct_padding: m & 2 != 0,
            dict_entry_offset_width_from_body: m & 4 != 0,
            empty_array_body_drops_offsets: m & 8 != 0,
            empty_struct_body_drops_offsets: m & 16 != 0,
        }
    }
}

pub struct Gv {
    pub be: bool,
    pub q: Quirks,
    /// number of `h` values written so far (wire index = order of appearance)
    pub n_handles: u32,
}

pub fn align_q(ty: &Ty, q: Quirks) -> usize {
    match ty {
        Ty::Y | Ty::S | Ty::O | Ty::G => 1,
        Ty::B => {
            if q.bool_as_u32 {
                4
            } else {
                1
            }
        }
        Ty::N | Ty::Q => 2,
        Ty::I | Ty::U | Ty::H => 4,
        Ty::X | Ty::T | Ty::D | Ty::V => 8,
        Ty::Array(e) | Ty::Maybe(e) => align_q(e, q),
        Ty::Dict(k, v) => align_q(k, q).max(align_q(v, q)),
        Ty::Struct(fs) => fs.iter().map(|f| align_q(f, q)).max().unwrap_or(1),
    }
}

pub fn align(ty: &Ty) -> usize {
    align_q(ty, Quirks::default())
}

fn round_up(n: usize, a: usize) -> usize {
    (n + a - 1) / a * a
}

fn struct_fixed_size(members: &[&Ty], q: Quirks) -> Option<usize> {
    if members.is_empty() {
        return Some(1);
    }
    let mut pos = 0usize;
    let mut al = 1usize;
    for m in members {
        let a = align_q(m, q);
        al = al.max(a);
        pos = round_up(pos, a) + fixed_size_q(m, q)?;
    }
    Some(if q.no_trailing_struct_padding { pos } else { round_up(pos, al) })
}

/// `Some(size)` for fixed-size types.
pub fn fixed_size_q(ty: &Ty, q: Quirks) -> Option<usize> {
    match ty {
        Ty::Y => Some(1),
        Ty::B => Some(if q.bool_as_u32 { 4 } else { 1 }),
        Ty::N | Ty::Q => Some(2),
        Ty::I | Ty::U | Ty::H => Some(4),
        Ty::X | Ty::T | Ty::D => Some(8),
        Ty::S | Ty::O | Ty::G | Ty::V | Ty::Array(_) | Ty::Dict(..) | Ty::Maybe(_) => None,
        Ty::Struct(fs) => struct_fixed_size(&fs.iter().collect::<Vec<_>>(), q),
    }
}

pub fn fixed_size(ty: &Ty) -> Option<usize> {
    fixed_size_q(ty, Quirks::default())
}

/// Width of the framing offsets of a container whose body is `body` bytes and that has `n`
/// offsets: the smallest width such that the whole container is addressable.
pub fn offset_width(body: usize, n: usize) -> usize {
    if n == 0 {
        // no table; width irrelevant
        return 1;
    }
    for w in [1usize, 2, 4] {
        let max = (1u128 << (8 * w)) - 1;
        if (body as u128) + (n as u128) * (w as u128) <= max {
            return w;
        }
    }
    8
}

fn put_offset(out: &mut Vec<u8>, off: usize, w: usize) {
    // always little-endian
    out.extend_from_slice(&(off as u64).to_le_bytes()[..w]);
}

impl Gv {
    pub fn new(be: bool) -> Self {
        Gv {
            be,
            q: Quirks::default(),
            n_handles: 0,
        }
    }
    fn int(&self, out: &mut Vec<u8>, v: u64, size: usize) {
        let le = v.to_le_bytes();
        if self.be {
            out.extend(le[..size].iter().rev());
        } else {
            out.extend_from_slice(&le[..size]);
        }
    }

    /// Append the members of a structure / dict entry.
    fn tuple(&mut self, members: &[&RV]) -> Vec<u8> {
        let tys: Vec<Ty> = members.iter().map(|m| m.ty()).collect();
        let ty_refs: Vec<&Ty> = tys.iter().collect();
        let mut out = vec![];
        if members.is_empty() {
            out.push(0);
            return out;
        }
        let mut al = 1;
        let mut offsets = vec![];
        let last = members.len() - 1;
        for (i, m) in members.iter().enumerate() {
            let a = align_q(&tys[i], self.q);
            al = al.max(a);
            out.resize(round_up(out.len(), a), 0);
            let b = self.value(m);
            out.extend_from_slice(&b);
            if fixed_size_q(&tys[i], self.q).is_none() && i != last {
                offsets.push(out.len());
            }
        }
        if struct_fixed_size(&ty_refs, self.q).is_some() {
            if !self.q.no_trailing_struct_padding {
                out.resize(round_up(out.len(), al), 0);
            }
        } else if !offsets.is_empty() && !(self.q.empty_struct_body_drops_offsets && out.is_empty()) {
            let w = offset_width(out.len(), offsets.len());
            for off in offsets.iter().rev() {
                put_offset(&mut out, *off, w);
            }
        }
        out
    }

    fn dict_entry(&mut self, k: &RV, v: &RV) -> Vec<u8> {
        if !self.q.dict_entry_offset_width_from_body {
            return self.tuple(&[k, v]);
        }
        // deviation: like `tuple`, but the single offset's width is chosen as if the table were empty
        let (kt, vt) = (k.ty(), v.ty());
        let mut out = self.value(k);
        let key_end = out.len();
        out.resize(round_up(out.len(), align_q(&vt, self.q)), 0);
        let b = self.value(v);
        out.extend_from_slice(&b);
        let key_var = fixed_size_q(&kt, self.q).is_none();
        let val_var = fixed_size_q(&vt, self.q).is_none();
        if key_var {
            // width from the body alone: body ≤ 255 → 1, ≤ 65535 → 2, ...
            let w = if out.len() <= 0xff {
                1
            } else if out.len() <= 0xffff {
                2
            } else if out.len() <= 0xffff_ffff {
                4
            } else {
                8
            };
            put_offset(&mut out, key_end, w);
        } else if !val_var && !self.q.no_trailing_struct_padding {
            let al = align_q(&kt, self.q).max(align_q(&vt, self.q));
            out.resize(round_up(out.len(), al), 0);
        }
        out
    }

    /// Append `elems` (all of type `ety`) as an array body.
    fn array(&mut self, ety: &Ty, elems: Vec<Vec<u8>>) -> Vec<u8> {
        let a = align_q(ety, self.q);
        let mut out = vec![];
        if fixed_size_q(ety, self.q).is_some() {
            for e in elems {
                out.resize(round_up(out.len(), a), 0);
                out.extend_from_slice(&e);
            }
            return out;
        }
        let mut ends = vec![];
        for e in elems {
            out.resize(round_up(out.len(), a), 0);
            out.extend_from_slice(&e);
            ends.push(out.len());
        }
        if !ends.is_empty() && !(self.q.empty_array_body_drops_offsets && out.is_empty()) {
            let w = offset_width(out.len(), ends.len());
            for e in ends {
                put_offset(&mut out, e, w);
            }
        }
        out
    }

    /// The serialisation of `v`, assuming it starts at a multiple of its alignment.
    pub fn value(&mut self, v: &RV) -> Vec<u8> {
        let mut out = vec![];
        match v {
            RV::Y(x) => out.push(*x),
            RV::B(x) => {
                if self.q.bool_as_u32 {
                    self.int(&mut out, *x as u64, 4)
                } else {
                    out.push(*x as u8)
                }
            }
            RV::N(x) => self.int(&mut out, *x as u16 as u64, 2),
            RV::Q(x) => self.int(&mut out, *x as u64, 2),
            RV::I(x) => self.int(&mut out, *x as u32 as u64, 4),
            RV::U(x) => self.int(&mut out, *x as u64, 4),
            RV::X(x) => self.int(&mut out, *x as u64, 8),
            RV::T(x) => self.int(&mut out, *x, 8),
            RV::D(x) => self.int(&mut out, *x, 8),
            RV::S(s) | RV::O(s) | RV::G(s) => {
                out.extend_from_slice(s.as_bytes());
                out.push(0);
            }
            RV::H(_) => {
                let idx = self.n_handles;
                self.n_handles += 1;
                self.int(&mut out, idx as u64, 4);
            }
            RV::V(b) => {
                out = self.value(&b.1);
                out.push(0);
                out.extend_from_slice(b.0.sig().as_bytes());
            }
            RV::Maybe(ety, x) => {
                if let Some(x) = x {
                    out = self.value(x);
                    if fixed_size_q(ety, self.q).is_none() {
                        out.push(0);
                    }
                }
            }
            RV::Array(ety, xs) => {
                let elems: Vec<Vec<u8>> = xs.iter().map(|x| self.value(x)).collect();
                out = self.array(ety, elems);
            }
            RV::Dict(k, vt, xs) => {
                let ety = Ty::Struct(vec![k.clone(), vt.clone()]);
                let elems: Vec<Vec<u8>> = xs.iter().map(|(kk, vv)| self.dict_entry(kk, vv)).collect();
                out = self.array(&ety, elems);
            }
            RV::Struct(xs) => {
                let members: Vec<&RV> = xs.iter().collect();
                out = self.tuple(&members);
            }
        }
        out
    }
}

/// Normal form of `v` without any leading padding (as GLib would store it).
pub fn normal_form(v: &RV, be: bool) -> Vec<u8> {
    Gv::new(be).value(v)
}

/// Reference bytes for `v` when the first output byte is at absolute position `base`:
/// zero padding up to the value's alignment, then the normal form.
pub fn serialize(v: &RV, be: bool, base: usize) -> Vec<u8> {
    serialize_q(v, be, base, Quirks::default())
}

pub fn serialize_q(v: &RV, be: bool, base: usize, q: Quirks) -> Vec<u8> {
    let mut g = Gv::new(be);
    g.q = q;
    let a = align_q(&v.ty(), q);
    let mut out = vec![0u8; round_up(base, a) - base];
    let body = g.value(v);
    out.extend_from_slice(&body);
    out
}

/// GVariant text form (as accepted by `g_variant_parse`) of `v`, every node annotated with its
/// type. Handles are numbered in order of appearance, like `serialize` does. Returns `None` for
/// values the text format cannot express exactly (NaN payloads, infinities).
pub fn text(v: &RV) -> Option<String> {
    let mut n = 0u32;
    let mut s = String::new();
    text_into(v, &mut s, &mut n)?;
    Some(s)
}

fn text_str(s: &str, out: &mut String) {
    out.push('"');
    for c in s.chars() {
        match c {
            '"' => out.push_str("\\\""),
            '\\' => out.push_str("\\\\"),
            '\n' => out.push_str("\\n"),
            c if (c as u32) < 0x20 => out.push_str(&format!("\\u{:04x}", c as u32)),
            c => out.push(c),
        }
    }
    out.push('"');
}

fn text_into(v: &RV, out: &mut String, n: &mut u32) -> Option<()> {
    out.push('@');
    out.push_str(&v.ty().sig());
    out.push(' ');
    match v {
        RV::Y(x) => out.push_str(&format!("{x}")),
        RV::B(x) => out.push_str(if *x { "true" } else { "false" }),
        RV::N(x) => out.push_str(&format!("{x}")),
        RV::Q(x) => out.push_str(&format!("{x}")),
        RV::I(x) => out.push_str(&format!("{x}")),
        RV::U(x) => out.push_str(&format!("{x}")),
        RV::X(x) => out.push_str(&format!("{x}")),
        RV::T(x) => out.push_str(&format!("{x}")),
        RV::D(bits) => {
            let f = f64::from_bits(*bits);
            if !f.is_finite() {
                return None;
            }
            // {:?} prints the shortest representation that round-trips, always with a '.' or 'e'
            out.push_str(&format!("{f:?}"));
        }
        RV::S(s) | RV::O(s) | RV::G(s) => text_str(s, out),
        RV::H(_) => {
            out.push_str(&format!("{}", *n));
            *n += 1;
        }
        RV::V(b) => {
            out.push('<');
            text_into(&b.1, out, n)?;
            out.push('>');
        }
        RV::Maybe(_, None) => out.push_str("nothing"),
        RV::Maybe(_, Some(x)) => {
            out.push_str("just ");
            text_into(x, out, n)?;
        }
        RV::Array(_, xs) => {
            out.push('[');
            for (i, x) in xs.iter().enumerate() {
                if i > 0 {
                    out.push(',');
                }
                text_into(x, out, n)?;
            }
            out.push(']');
        }
        RV::Dict(_, _, xs) => {
            out.push('{');
            for (i, (k, x)) in xs.iter().enumerate() {
                if i > 0 {
                    out.push(',');
                }
                text_into(k, out, n)?;
                out.push(':');
                text_into(x, out, n)?;
            }
            out.push('}');
        }
        RV::Struct(xs) => {
            out.push('(');
            for (i, x) in xs.iter().enumerate() {
                if i > 0 {
                    out.push(',');
                }
                text_into(x, out, n)?;
            }
            if xs.len() == 1 {
                out.push(',');
            }
            out.push(')');
        }
    }
    Some(())
}

// ------------------------------------------------------------------------------------------
// GLib audit (runtime only: dlopen)
// ------------------------------------------------------------------------------------------

use std::ffi::{c_char, c_int, c_void, CStr, CString};

#[repr(C)]
struct GError {
    domain: u32,
    code: c_int,
    message: *const c_char,
}

type ParseFn = unsafe extern "C" fn(
    *const c_char,
    *const c_char,
    *const c_char,
    *mut *const c_char,
    *mut *mut GError,
) -> *mut c_void;

pub struct GLib {
    parse: ParseFn,
    get_data: unsafe extern "C" fn(*mut c_void) -> *const u8,
    get_size: unsafe extern "C" fn(*mut c_void) -> usize,
    is_normal_form: unsafe extern "C" fn(*mut c_void) -> c_int,
    byteswap: unsafe extern "C" fn(*mut c_void) -> *mut c_void,
    unref: unsafe extern "C" fn(*mut c_void),
    new_from_data: unsafe extern "C" fn(
        *const c_char,
        *const c_void,
        usize,
        c_int,
        *const c_void,
        *const c_void,
    ) -> *mut c_void,
    ref_sink: unsafe extern "C" fn(*mut c_void) -> *mut c_void,
    print: unsafe extern "C" fn(*mut c_void, c_int) -> *mut c_char,
    equal: unsafe extern "C" fn(*const c_void, *const c_void) -> c_int,
    g_free: unsafe extern "C" fn(*mut c_void),
    error_free: unsafe extern "C" fn(*mut GError),
}

unsafe impl Sync for GLib {}
unsafe impl Send for GLib {}

pub struct GOut {
    /// normal-form bytes in the machine's byte order (little-endian here)
    pub le: Vec<u8>,
    /// the same value byte-swapped by GLib
    pub be: Vec<u8>,
}

impl GLib {
    pub fn open() -> Result<GLib, String> {
        unsafe {
            let name = CString::new("libglib-2.0.so.0").unwrap();
            let h = libc::dlopen(name.as_ptr(), libc::RTLD_NOW | libc::RTLD_GLOBAL);
            if h.is_null() {
                return Err("dlopen(libglib-2.0.so.0) failed".into());
            }
            let sym = |n: &str| -> Result<*mut c_void, String> {
                let c = CString::new(n).unwrap();
                let p = libc::dlsym(h, c.as_ptr());
                if p.is_null() {
                    Err(format!("dlsym({n}) failed"))
                } else {
                    Ok(p)
                }
            };
            Ok(GLib {
                parse: std::mem::transmute(sym("g_variant_parse")?),
                get_data: std::mem::transmute(sym("g_variant_get_data")?),
                get_size: std::mem::transmute(sym("g_variant_get_size")?),
                is_normal_form: std::mem::transmute(sym("g_variant_is_normal_form")?),
                byteswap: std::mem::transmute(sym("g_variant_byteswap")?),
                unref: std::mem::transmute(sym("g_variant_unref")?),
                new_from_data: std::mem::transmute(sym("g_variant_new_from_data")?),
                ref_sink: std::mem::transmute(sym("g_variant_ref_sink")?),
                print: std::mem::transmute(sym("g_variant_print")?),
                equal: std::mem::transmute(sym("g_variant_equal")?),
                g_free: std::mem::transmute(sym("g_free")?),
                error_free: std::mem::transmute(sym("g_error_free")?),
            })
        }
    }

    unsafe fn bytes_of(&self, v: *mut c_void) -> Vec<u8> {
        let n = (self.get_size)(v);
        let p = (self.get_data)(v);
        if n == 0 || p.is_null() {
            vec![]
        } else {
            std::slice::from_raw_parts(p, n).to_vec()
        }
    }

    /// Parse `text` as a value of type `sig`; return GLib's serialisation in both byte orders.
    pub fn serialise_text(&self, sig: &str, text: &str) -> Result<GOut, String> {
        if cfg!(target_endian = "big") {
            return Err("audit assumes a little-endian machine".into());
        }
        let csig = CString::new(sig).map_err(|e| e.to_string())?;
        let ctext = CString::new(text).map_err(|e| e.to_string())?;
        unsafe {
            let mut err: *mut GError = std::ptr::null_mut();
            let v = (self.parse)(
                csig.as_ptr(),
                ctext.as_ptr(),
                std::ptr::null(),
                std::ptr::null_mut(),
                &mut err,
            );
            if v.is_null() {
                let msg = if err.is_null() {
                    "unknown".to_string()
                } else {
                    let m = CStr::from_ptr((*err).message).to_string_lossy().to_string();
                    (self.error_free)(err);
                    m
                };
                return Err(format!("g_variant_parse: {msg}"));
            }
            let le = self.bytes_of(v);
            let sw = (self.byteswap)(v);
            let be = self.bytes_of(sw);
            (self.unref)(sw);
            (self.unref)(v);
            Ok(GOut { le, be })
        }
    }

    /// Load `bytes` (little-endian serialisation) as untrusted data of type `sig` and ask GLib
    /// whether it is in normal form; also returns GLib's printed form of what it read.
    pub fn check_normal(&self, sig: &str, bytes: &[u8]) -> Result<(bool, String), String> {
        let csig = CString::new(sig).map_err(|e| e.to_string())?;
        // 8-aligned copy that outlives the variant
        let mut buf: Vec<u64> = vec![0; bytes.len() / 8 + 1];
        unsafe {
            std::ptr::copy_nonoverlapping(bytes.as_ptr(), buf.as_mut_ptr() as *mut u8, bytes.len());
            let v = (self.new_from_data)(
                csig.as_ptr(),
                buf.as_ptr() as *const c_void,
                bytes.len(),
                0,
                std::ptr::null(),
                std::ptr::null(),
            );
            if v.is_null() {
                return Err("g_variant_new_from_data returned NULL".into());
            }
            let v = (self.ref_sink)(v);
            let normal = (self.is_normal_form)(v) != 0;
            let p = (self.print)(v, 1);
            let s = CStr::from_ptr(p).to_string_lossy().to_string();
            (self.g_free)(p as *mut c_void);
            (self.unref)(v);
            drop(buf);
            Ok((normal, s))
        }
    }
}

/// Audit the reference against GLib for one value. `Ok(true)` = audited and agreed, `Ok(false)` =
/// not expressible (skipped), `Err` = disagreement (machinery failure of the reference model).
pub fn audit_one(g: &GLib, v: &RV) -> Result<bool, String> {
    let Some(t) = text(v) else { return Ok(false) };
    let sig = v.ty().sig();
    let out = g.serialise_text(&sig, &t).map_err(|e| format!("{sig} {t}: {e}"))?;
    let le = normal_form(v, false);
    let be = normal_form(v, true);
    if out.le != le {
        return Err(format!(
            "refgv != GLib (LE) for {sig} {t}: ref={} glib={}",
            short_hex(&le),
            short_hex(&out.le)
        ));
    }
    if out.be != be {
        return Err(format!(
            "refgv != GLib (BE) for {sig} {t}: ref={} glib={}",
            short_hex(&be),
            short_hex(&out.be)
        ));
    }
    let (normal, _printed) = g.check_normal(&sig, &le)?;
    if !normal {
        return Err(format!(
            "GLib says the reference bytes are not in normal form: {sig} {t}: {}",
            short_hex(&le)
        ));
    }
    Ok(true)
}

pub fn short_hex(b: &[u8]) -> String {
    if b.len() <= 96 {
        vcommon::hex(b)
    } else {
        format!(
            "{}..({} bytes)..{}",
            vcommon::hex(&b[..32]),
            b.len(),
            vcommon::hex(&b[b.len() - 32..])
        )
    }
}
