#!/usr/bin/env python3
"""Validate MANIFEST.json and every evidence file against the schemas (uses the tooling venv)."""
import json, glob, sys
import jsonschema
ok = True
m=json.load(open('/verif/MANIFEST.json')); s=json.load(open('/root/.vp/MANIFEST.schema.json'))
jsonschema.validate(m,s); print("manifest valid:", len(m['checks']), "checks,", len(m.get('not_applicable',[])), "not applicable")
es=json.load(open('/root/.vp/EVIDENCE.schema.json'))
for f in sorted(glob.glob('/verif/evidence/*.json')):
    try:
        jsonschema.validate(json.load(open(f)), es); print(f, "ok")
    except Exception as e:
        ok = False; print(f, "INVALID", str(e)[:300])
sys.exit(0 if ok else 1)
