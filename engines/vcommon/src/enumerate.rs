//! Exhaustive enumeration helpers. Everything here enumerates a finite space completely and in a
//! fixed order, simplest first.

/// Number of strings of length 0..=max_len over an alphabet of `k` symbols.
pub fn count_strings(k: usize, max_len: usize) -> usize {
    let mut total = 0usize;
    let mut p = 1usize;
    for _ in 0..=max_len {
        total += p;
        p = p.saturating_mul(k);
    }
    total
}

/// The `index`-th string (by length, then lexicographic in alphabet order) as symbol indices.
pub fn nth_string(k: usize, mut index: usize, out: &mut Vec<usize>) {
    out.clear();
    let mut len = 0usize;
    let mut p = 1usize;
    while index >= p {
        index -= p;
        p *= k;
        len += 1;
    }
    out.resize(len, 0);
    for i in (0..len).rev() {
        out[i] = index % k;
        index /= k;
    }
}

/// Mixed-radix odometer over `dims`; calls `f` with every index vector. Empty dims = one call.
pub fn product(dims: &[usize], mut f: impl FnMut(&[usize])) {
    if dims.iter().any(|d| *d == 0) {
        return;
    }
    let mut idx = vec![0usize; dims.len()];
    loop {
        f(&idx);
        let mut i = dims.len();
        loop {
            if i == 0 {
                return;
            }
            i -= 1;
            idx[i] += 1;
            if idx[i] < dims[i] {
                break;
            }
            idx[i] = 0;
        }
    }
}

pub fn product_size(dims: &[usize]) -> usize {
    dims.iter().product()
}

/// Decode the `n`-th element of the product space.
pub fn nth_product(dims: &[usize], mut n: usize, out: &mut Vec<usize>) {
    out.clear();
    out.resize(dims.len(), 0);
    for i in (0..dims.len()).rev() {
        out[i] = n % dims[i];
        n /= dims[i];
    }
}

/// All ways to cut a stream of `len` bytes at at most `max_cuts` interior positions. Each result
/// is the sorted list of cut positions (1..len-1).
pub fn cuts(len: usize, max_cuts: usize) -> Vec<Vec<usize>> {
    let mut out = vec![vec![]];
    fn rec(start: usize, len: usize, left: usize, cur: &mut Vec<usize>, out: &mut Vec<Vec<usize>>) {
        if left == 0 {
            return;
        }
        for p in start..len {
            cur.push(p);
            out.push(cur.clone());
            rec(p + 1, len, left - 1, cur, out);
            cur.pop();
        }
    }
    if len > 1 {
        rec(1, len, max_cuts, &mut vec![], &mut out);
    }
    out
}

/// Turn cut positions into chunk lengths.
pub fn chunks_from_cuts(len: usize, cuts: &[usize]) -> Vec<usize> {
    let mut out = vec![];
    let mut prev = 0;
    for c in cuts {
        out.push(c - prev);
        prev = *c;
    }
    out.push(len - prev);
    out
}

/// All permutations of 0..n (n small).
pub fn permutations(n: usize) -> Vec<Vec<usize>> {
    let mut out = vec![];
    let mut cur: Vec<usize> = (0..n).collect();
    fn heap(k: usize, a: &mut Vec<usize>, out: &mut Vec<Vec<usize>>) {
        if k <= 1 {
            out.push(a.clone());
            return;
        }
        for i in 0..k {
            heap(k - 1, a, out);
            if k % 2 == 0 {
                a.swap(i, k - 1);
            } else {
                a.swap(0, k - 1);
            }
        }
    }
    heap(n, &mut cur, &mut out);
    out.sort();
    out
}

/// All subsets of 0..n as bitmasks, by popcount then value.
pub fn subsets(n: usize) -> Vec<u32> {
    let mut v: Vec<u32> = (0..(1u32 << n)).collect();
    v.sort_by_key(|m| (m.count_ones(), *m));
    v
}

#[cfg(test)]
mod tests {
    use super::*;
    #[test]
    fn strings() {
        assert_eq!(count_strings(2, 2), 7);
        let mut v = vec![];
        let all: Vec<Vec<usize>> = (0..7)
            .map(|i| {
                nth_string(2, i, &mut v);
                v.clone()
            })
            .collect();
        assert_eq!(all[0], Vec::<usize>::new());
        assert_eq!(all[1], vec![0]);
        assert_eq!(all[3], vec![0, 0]);
        assert_eq!(all[6], vec![1, 1]);
    }
    #[test]
    fn cutting() {
        assert_eq!(cuts(3, 2).len(), 1 + 2 + 1);
        assert_eq!(chunks_from_cuts(5, &[2, 3]), vec![2, 1, 2]);
        assert_eq!(permutations(3).len(), 6);
    }
}
