//! Shared machinery for all engines: tiers, evidence files, known-findings matching, violation
//! artefacts, exhaustive enumeration helpers and a parallel driver.
//!
//! Exit codes of every check binary: 0 = property held on everything explored (known findings
//! are printed as `KNOWN-FINDING:` lines), 1 = unlisted violation (`VIOLATION property=.. replay=..`),
//! 2 = machinery failure (never a verdict).

use serde_json::{json, Map, Value};
use std::{
    collections::{BTreeMap, BTreeSet},
    hash::{Hash, Hasher},
    path::PathBuf,
    sync::{
        atomic::{AtomicU64, AtomicUsize, Ordering},
        Mutex,
    },
    time::Instant,
};

pub mod enumerate;

pub fn verif_root() -> PathBuf {
    std::env::var_os("VERIF_ROOT")
        .map(PathBuf::from)
        .unwrap_or_else(|| PathBuf::from("/verif"))
}

#[derive(Clone, Copy, PartialEq, Eq, Debug)]
pub enum Tier {
    Quick,
    Thorough,
}

impl Tier {
    pub fn as_str(self) -> &'static str {
        match self {
            Tier::Quick => "quick",
            Tier::Thorough => "thorough",
        }
    }
    pub fn pick<T>(self, quick: T, thorough: T) -> T {
        match self {
            Tier::Quick => quick,
            Tier::Thorough => thorough,
        }
    }
}

/// Parsed command line shared by all check binaries:
/// `<bin> <ID> [--tier quick|thorough] [--replay <path>]`
pub struct Args {
    pub id: String,
    pub tier: Tier,
    pub replay: Option<String>,
    pub seed: i64,
    pub extra: Vec<String>,
}

pub fn parse_args() -> Args {
    let mut it = std::env::args().skip(1);
    let id = it.next().unwrap_or_else(|| machinery_failure("usage: <bin> <ID> [--tier t] [--replay p]"));
    let mut tier = match std::env::var("VERIF_TIER").ok().as_deref() {
        Some("thorough") => Tier::Thorough,
        _ => Tier::Quick,
    };
    let mut replay = None;
    let mut extra = vec![];
    while let Some(a) = it.next() {
        match a.as_str() {
            "--tier" => {
                tier = match it.next().as_deref() {
                    Some("quick") => Tier::Quick,
                    Some("thorough") => Tier::Thorough,
                    _ => machinery_failure("bad --tier"),
                }
            }
            "--replay" => replay = it.next(),
            _ => extra.push(a),
        }
    }
    let seed = std::env::var("VERIF_SEED")
        .ok()
        .and_then(|s| s.parse().ok())
        .unwrap_or(0);
    Args {
        id,
        tier,
        replay,
        seed,
        extra,
    }
}

pub fn machinery_failure(msg: &str) -> ! {
    eprintln!("MACHINERY-FAILURE: {msg}");
    std::process::exit(2)
}

pub fn n_workers() -> usize {
    std::env::var("VERIF_JOBS")
        .ok()
        .and_then(|s| s.parse().ok())
        .unwrap_or_else(|| {
            std::thread::available_parallelism()
                .map(|n| n.get())
                .unwrap_or(4)
        })
        .max(1)
}

/// Run `f(i)` for every `i in 0..n` on all cores (work-stealing by atomic counter, chunked).
pub fn par_for(n: usize, chunk: usize, f: impl Fn(usize) + Sync) {
    let next = AtomicUsize::new(0);
    let workers = n_workers().min(n.max(1));
    std::thread::scope(|s| {
        for _ in 0..workers {
            s.spawn(|| loop {
                let start = next.fetch_add(chunk, Ordering::Relaxed);
                if start >= n {
                    break;
                }
                for i in start..(start + chunk).min(n) {
                    f(i);
                }
            });
        }
    });
}

pub fn hash64<T: Hash + ?Sized>(t: &T) -> u64 {
    // FNV-1a based deterministic hasher (std's SipHash with fixed keys would also do).
    struct Fnv(u64);
    impl Hasher for Fnv {
        fn finish(&self) -> u64 {
            self.0
        }
        fn write(&mut self, bytes: &[u8]) {
            for b in bytes {
                self.0 ^= *b as u64;
                self.0 = self.0.wrapping_mul(0x100000001b3);
            }
        }
    }
    let mut h = Fnv(0xcbf29ce484222325);
    t.hash(&mut h);
    h.finish()
}

/// A violation (or known finding candidate) of one oracle clause on one case.
#[derive(Clone, Debug)]
pub struct Violation {
    /// Which clause of the property's oracle failed.
    pub clause: String,
    /// Narrow declarative features of the failing case, used for known-finding identity.
    pub features: BTreeMap<String, String>,
    /// Human readable description of the case and what was observed.
    pub detail: String,
    /// Machine readable replay payload (input, history or schedule).
    pub replay: Value,
}

impl Violation {
    pub fn new(clause: &str, detail: impl Into<String>, replay: Value) -> Self {
        Self {
            clause: clause.to_string(),
            features: BTreeMap::new(),
            detail: detail.into(),
            replay,
        }
    }
    pub fn feat(mut self, k: &str, v: impl ToString) -> Self {
        self.features.insert(k.to_string(), v.to_string());
        self
    }
}

#[derive(Clone, Debug)]
struct KnownFinding {
    id: String,
    what: String,
    clause: String,
    matcher: BTreeMap<String, String>,
}

fn load_known_findings(property: &str) -> Vec<KnownFinding> {
    let path = verif_root().join("KNOWN_FINDINGS.jsonl");
    let Ok(text) = std::fs::read_to_string(&path) else {
        return vec![];
    };
    let mut out = vec![];
    for (n, line) in text.lines().enumerate() {
        let line = line.trim();
        if line.is_empty() || line.starts_with('#') || line.starts_with("fixed:") {
            // `fixed:` entries are documentation; they suppress nothing.
            continue;
        }
        let v: Value = serde_json::from_str(line)
            .unwrap_or_else(|e| machinery_failure(&format!("KNOWN_FINDINGS.jsonl line {}: {e}", n + 1)));
        if v["property"].as_str() != Some(property) || v["status"].as_str() != Some("known") {
            continue;
        }
        let matcher = v["match"]
            .as_object()
            .map(|m| {
                m.iter()
                    .map(|(k, v)| {
                        (
                            k.clone(),
                            v.as_str().map(|s| s.to_string()).unwrap_or_else(|| v.to_string()),
                        )
                    })
                    .collect()
            })
            .unwrap_or_default();
        out.push(KnownFinding {
            id: v["id"].as_str().unwrap_or("?").to_string(),
            what: v["what"].as_str().unwrap_or("").to_string(),
            clause: v["clause"].as_str().unwrap_or("").to_string(),
            matcher,
        });
    }
    out
}

/// Collects everything a run has to report and writes the evidence file.
pub struct Report {
    pub property: String,
    pub tier: Tier,
    pub seed: i64,
    pub level: &'static str,
    start: Instant,
    coverage: Mutex<Map<String, Value>>,
    samples: Mutex<Vec<Value>>,
    assumptions: Mutex<Vec<String>>,
    violations: Mutex<Vec<Violation>>,
    n_violating_cases: AtomicU64,
    evaluations: AtomicU64,
    nontrivial: Mutex<BTreeSet<u64>>,
    outcomes: Mutex<BTreeMap<String, u64>>,
    caps: Mutex<Vec<String>>,
    notes: Mutex<Vec<String>>,
    pub max_kept_violations: usize,
}

impl Report {
    pub fn new(property: &str, tier: Tier, seed: i64, level: &'static str) -> Self {
        // replay artefacts of earlier runs are stale
        let _ = std::fs::remove_dir_all(verif_root().join("replays").join(property));
        Self {
            property: property.to_string(),
            tier,
            seed,
            level,
            start: Instant::now(),
            coverage: Mutex::new(Map::new()),
            samples: Mutex::new(vec![]),
            assumptions: Mutex::new(vec![]),
            violations: Mutex::new(vec![]),
            n_violating_cases: AtomicU64::new(0),
            evaluations: AtomicU64::new(0),
            nontrivial: Mutex::new(BTreeSet::new()),
            outcomes: Mutex::new(BTreeMap::new()),
            caps: Mutex::new(vec![]),
            notes: Mutex::new(vec![]),
            max_kept_violations: 2000,
        }
    }

    pub fn elapsed_s(&self) -> f64 {
        self.start.elapsed().as_secs_f64()
    }

    /// Count evaluated cases.
    pub fn eval(&self, n: u64) {
        self.evaluations.fetch_add(n, Ordering::Relaxed);
    }
    pub fn evaluations(&self) -> u64 {
        self.evaluations.load(Ordering::Relaxed)
    }

    /// Register a distinct non-trivial case by a hash of its canonical form.
    pub fn nontrivial(&self, canon_hash: u64) {
        self.nontrivial.lock().unwrap().insert(canon_hash);
    }
    pub fn nontrivial_many(&self, hs: impl IntoIterator<Item = u64>) {
        self.nontrivial.lock().unwrap().extend(hs);
    }

    /// Count an outcome class (vacuity indicator).
    pub fn outcome(&self, class: &str) {
        *self.outcomes.lock().unwrap().entry(class.to_string()).or_insert(0) += 1;
    }
    pub fn outcome_n(&self, class: &str, n: u64) {
        *self.outcomes.lock().unwrap().entry(class.to_string()).or_insert(0) += n;
    }

    pub fn sample(&self, v: Value) {
        let mut s = self.samples.lock().unwrap();
        if s.len() < 12 {
            s.push(v);
        }
    }
    pub fn n_samples(&self) -> usize {
        self.samples.lock().unwrap().len()
    }

    pub fn assume(&self, s: &str) {
        self.assumptions.lock().unwrap().push(s.to_string());
    }
    pub fn cap(&self, s: impl Into<String>) {
        self.caps.lock().unwrap().push(s.into());
    }
    pub fn note(&self, s: impl Into<String>) {
        self.notes.lock().unwrap().push(s.into());
    }
    pub fn set(&self, key: &str, v: Value) {
        self.coverage.lock().unwrap().insert(key.to_string(), v);
    }
    pub fn add(&self, key: &str, n: u64) {
        let mut c = self.coverage.lock().unwrap();
        let cur = c.get(key).and_then(|v| v.as_u64()).unwrap_or(0);
        c.insert(key.to_string(), json!(cur + n));
    }

    pub fn violation(&self, v: Violation) {
        self.n_violating_cases.fetch_add(1, Ordering::Relaxed);
        let mut vs = self.violations.lock().unwrap();
        // keep a bounded number, but always at least one per (clause, features) identity
        let ident = (v.clause.clone(), v.features.clone());
        let same = vs
            .iter()
            .filter(|o| (o.clause.clone(), o.features.clone()) == ident)
            .count();
        if same < 3 && vs.len() < self.max_kept_violations {
            vs.push(v);
        }
    }

    pub fn has_violations(&self) -> bool {
        self.n_violating_cases.load(Ordering::Relaxed) > 0
    }

    /// Export what this report has collected so far, so that another process can fold it into
    /// its own report for the same property (a property whose check spans two harness crates).
    pub fn export_part(&self) -> Value {
        json!({
            "property": self.property,
            "evaluations": self.evaluations(),
            "nontrivial": self.nontrivial.lock().unwrap().iter().cloned().collect::<Vec<u64>>(),
            "outcomes": *self.outcomes.lock().unwrap(),
            "samples": *self.samples.lock().unwrap(),
            "assumptions": *self.assumptions.lock().unwrap(),
            "caps": *self.caps.lock().unwrap(),
            "violating_cases": self.n_violating_cases.load(Ordering::Relaxed),
            "violations": self.violations.lock().unwrap().iter().map(|v| json!({
                "clause": v.clause, "features": v.features, "detail": v.detail, "replay": v.replay,
            })).collect::<Vec<_>>(),
        })
    }

    /// Fold a part exported by `export_part` into this report.
    pub fn import_part(&self, part: &Value) {
        self.eval(part["evaluations"].as_u64().unwrap_or(0));
        if let Some(a) = part["nontrivial"].as_array() {
            self.nontrivial_many(a.iter().filter_map(|x| x.as_u64()));
        }
        if let Some(o) = part["outcomes"].as_object() {
            for (k, v) in o {
                self.outcome_n(k, v.as_u64().unwrap_or(0));
            }
        }
        for s in part["samples"].as_array().into_iter().flatten().take(3) {
            self.sample(s.clone());
        }
        for a in part["assumptions"].as_array().into_iter().flatten() {
            if let Some(a) = a.as_str() {
                self.assume(a);
            }
        }
        for c in part["caps"].as_array().into_iter().flatten() {
            if let Some(c) = c.as_str() {
                self.cap(c);
            }
        }
        let kept = part["violations"].as_array().map(|a| a.len()).unwrap_or(0) as u64;
        let total = part["violating_cases"].as_u64().unwrap_or(kept);
        for v in part["violations"].as_array().into_iter().flatten() {
            let mut viol = Violation::new(
                v["clause"].as_str().unwrap_or("?"),
                v["detail"].as_str().unwrap_or(""),
                v["replay"].clone(),
            );
            if let Some(f) = v["features"].as_object() {
                for (k, val) in f {
                    viol = viol.feat(k, val.as_str().unwrap_or(""));
                }
            }
            self.violation(viol);
        }
        self.n_violating_cases.fetch_add(total.saturating_sub(kept), Ordering::Relaxed);
    }

    /// Write evidence, print KNOWN-FINDING / VIOLATION lines, return the exit code.
    pub fn finish(&self, rule: &str, exhaustive: bool) -> i32 {
        let known = load_known_findings(&self.property);
        let vs = self.violations.lock().unwrap().clone();
        let mut matched: BTreeMap<String, (String, u64)> = BTreeMap::new();
        let mut unmatched: Vec<Violation> = vec![];
        for v in &vs {
            let hit = known.iter().find(|k| {
                k.clause == v.clause
                    && k.matcher
                        .iter()
                        .all(|(key, val)| v.features.get(key).map(|x| x == val).unwrap_or(false))
            });
            match hit {
                Some(k) => {
                    matched
                        .entry(k.id.clone())
                        .or_insert_with(|| (k.what.clone(), 0))
                        .1 += 1;
                }
                None => unmatched.push(v.clone()),
            }
        }
        for (id, (what, _)) in &matched {
            println!("KNOWN-FINDING: property={} {} {}", self.property, id, what);
        }
        for k in &known {
            if !matched.contains_key(&k.id) {
                println!(
                    "note: known finding {} ({}) was not reproduced by this run",
                    k.id, k.what
                );
            }
        }
        let mut exit = 0;
        let mut replay_paths = vec![];
        if !unmatched.is_empty() {
            exit = 1;
            let dir = verif_root().join("replays").join(&self.property);
            let _ = std::fs::create_dir_all(&dir);
            // one artefact per distinct (clause, features) identity, first (= simplest) case
            let mut seen = BTreeSet::new();
            for v in &unmatched {
                let ident = (v.clause.clone(), v.features.clone());
                if !seen.insert(ident) {
                    continue;
                }
                let name = format!(
                    "{}-{:016x}.json",
                    v.clause.replace(|c: char| !c.is_ascii_alphanumeric(), "_"),
                    hash64(&(v.detail.as_str(), v.replay.to_string()))
                );
                let path = dir.join(name);
                let body = json!({
                    "property": self.property,
                    "clause": v.clause,
                    "features": v.features,
                    "detail": v.detail,
                    "replay": v.replay,
                });
                if std::fs::write(&path, serde_json::to_string_pretty(&body).unwrap()).is_err() {
                    machinery_failure("cannot write replay artefact");
                }
                println!("violation: clause={} {}", v.clause, v.detail);
                println!(
                    "VIOLATION property={} replay={}",
                    self.property,
                    path.display()
                );
                replay_paths.push(path.display().to_string());
                if replay_paths.len() >= 20 {
                    break;
                }
            }
        }

        let mut cov = self.coverage.lock().unwrap().clone();
        let evals = self.evaluations();
        let nontrivial = self.nontrivial.lock().unwrap().len() as u64;
        cov.entry("evaluations".to_string()).or_insert(json!(evals));
        cov.entry("distinct_nontrivial".to_string())
            .or_insert(json!(nontrivial));
        cov.insert("rule".into(), json!(rule));
        let caps = self.caps.lock().unwrap().clone();
        cov.insert("exhaustive".into(), json!(exhaustive && caps.is_empty()));
        cov.insert("caps_hit".into(), json!(caps));
        cov.insert("samples".into(), json!(*self.samples.lock().unwrap()));
        let outcomes = self.outcomes.lock().unwrap().clone();
        cov.insert("distinct_outcome_classes".into(), json!(outcomes.len()));
        cov.insert("outcome_classes".into(), json!(outcomes));
        cov.insert(
            "known_findings_matched".into(),
            json!(matched
                .iter()
                .map(|(k, (w, n))| json!({"id": k, "what": w, "kept_cases": n}))
                .collect::<Vec<_>>()),
        );
        cov.insert(
            "violating_cases_total".into(),
            json!(self.n_violating_cases.load(Ordering::Relaxed)),
        );
        let notes = self.notes.lock().unwrap().clone();
        if !notes.is_empty() {
            cov.insert("notes".into(), json!(notes));
        }
        if !replay_paths.is_empty() {
            cov.insert("replays".into(), json!(replay_paths));
        }
        let ev = json!({
            "property_id": self.property,
            "tier": self.tier.as_str(),
            "seed": self.seed,
            "level": self.level,
            "coverage": Value::Object(cov),
            "assumptions": *self.assumptions.lock().unwrap(),
            "wall_s": (self.elapsed_s() * 1000.0).round() / 1000.0,
            "violations": unmatched.len(),
        });
        let dir = verif_root().join("evidence");
        let _ = std::fs::create_dir_all(&dir);
        let path = dir.join(format!("{}.json", self.property));
        if std::fs::write(&path, serde_json::to_string_pretty(&ev).unwrap() + "\n").is_err() {
            machinery_failure("cannot write evidence file");
        }
        println!(
            "{}: tier={} evaluations={} distinct_nontrivial={} outcome_classes={} violations={} known={} wall={:.1}s",
            self.property,
            self.tier.as_str(),
            ev["coverage"]["evaluations"],
            ev["coverage"]["distinct_nontrivial"],
            ev["coverage"]["distinct_outcome_classes"],
            unmatched.len(),
            matched.len(),
            self.elapsed_s()
        );
        exit
    }
}

/// Read a replay artefact written by `Report::finish`.
pub fn load_replay(path: &str) -> Value {
    let text = std::fs::read_to_string(path)
        .unwrap_or_else(|e| machinery_failure(&format!("cannot read replay {path}: {e}")));
    serde_json::from_str(&text)
        .unwrap_or_else(|e| machinery_failure(&format!("bad replay file {path}: {e}")))
}

pub fn hex(bytes: &[u8]) -> String {
    bytes.iter().map(|b| format!("{b:02x}")).collect()
}

pub fn unhex(s: &str) -> Vec<u8> {
    (0..s.len() / 2)
        .map(|i| u8::from_str_radix(&s[2 * i..2 * i + 2], 16).unwrap_or(0))
        .collect()
}

/// Catch a panic from the subject and return its message.
pub fn catch<T>(f: impl FnOnce() -> T) -> Result<T, String> {
    match std::panic::catch_unwind(std::panic::AssertUnwindSafe(f)) {
        Ok(v) => Ok(v),
        Err(e) => Err(if let Some(s) = e.downcast_ref::<&str>() {
            s.to_string()
        } else if let Some(s) = e.downcast_ref::<String>() {
            s.clone()
        } else {
            "panic".to_string()
        }),
    }
}

/// Silence the default panic hook (the subject is allowed to panic; we record it ourselves), while
/// remembering the location of the most recent panic per thread.
pub fn quiet_panics() {
    std::panic::set_hook(Box::new(|info| {
        let loc = info
            .location()
            .map(|l| format!("{}:{}", l.file(), l.line()))
            .unwrap_or_default();
        LAST_PANIC_LOC.with(|c| *c.borrow_mut() = loc);
    }));
}

thread_local! {
    static LAST_PANIC_LOC: std::cell::RefCell<String> = const { std::cell::RefCell::new(String::new()) };
}

pub fn last_panic_location() -> String {
    LAST_PANIC_LOC.with(|c| c.borrow().clone())
}
