#!/usr/bin/env python3
"""C09 type-bank generator: enumerates (no randomness) a grammar of Rust type definitions and
writes /verif/engines/zv/src/typebank.rs.

For every type the generator emits
  * the Rust definition (with the derives the library documents for that shape),
  * `expected_signature` and a list of values, each paired with its expected `RV` tree.

Signature and RV are computed HERE, from the documented mapping rules, never by asking zvariant:

  u8 y | bool b | i16 n | u16 q | i32 i | u32 u | i64 x | u64 t | f64 d | String/&str/char s
  i8 -> n (no i8 on the wire, "pretend it's i16"), f32 -> d, usize -> t, isize -> x
  ObjectPath o | Signature g | Value v
  Vec<T>/[T]/sets -> aT | maps -> a{KV} | Option<T> (option-as-array build) -> aT with 0 or 1 element
  tuples, named structs, tuple structs (>= 2 fields) -> (F1F2..) | newtype struct -> the inner type
  unit struct / () -> empty signature, no bytes | struct with zero named fields, [T; 0] -> y (one 0 byte)
  unit enum: `#[repr(X)]` + serde_repr -> X holding the discriminant; serde derive -> u holding the
      variant index; `#[zvariant(signature = "s")]` + serde derive -> s holding the variant name
  data-carrying enum -> (u<payload>): variant index, then the payload (newtype variant: the inner
      type; tuple / struct variant: a structure of the fields)
  dict-struct (`signature = "a{sv}"`/"dict" with SerializeDict/DeserializeDict or serde `as_value`)
      -> a{sv}: one entry per field, key = (renamed) field name, value = variant of the field;
      `Option` fields that are `None` are left out
  std: Duration/SystemTime -> (tu) secs,nanos | Ipv4Addr -> (yyyy) | Ipv6Addr -> (y*16)
       IpAddr -> (uay) 0/1 + octets | SocketAddrV4/V6 -> (<ip>q) | Range/RangeInclusive -> (TT)
       RangeFrom/RangeTo -> (T) | [T; N] -> (T*N) | Wrapping/Saturating/Reverse/Box/Cow/NonZero -> inner
       Optional<T> -> T (None = default value) | PhantomData<T> -> declared T

Grammar: nesting depth <= 2, <= 2 fields per composite.  Depth 2 = every outer constructor applied
to every depth-1 representative.  Value lists: full product of small leaf domains, capped at CAP
per type (base-choice beyond the cap; capped types are flagged in the bank and reported).

Deterministic: running it twice gives byte-identical output.  Usage: types.py [output path]
"""
import sys

# This file is called types.py (fixed by the framework layout); keep it from shadowing the standard
# library module `types` when it is run as a script (sys.path[0] is then this directory).
_here = __file__.rsplit("/", 1)[0] if "/" in __file__ else "."
sys.path[:] = [p for p in sys.path if p not in ("", ".", _here) and not p.rstrip("/").endswith("/engines/gen")]

import json    # noqa: E402
import struct  # noqa: E402

OUT = sys.argv[1] if len(sys.argv) > 1 else "/verif/engines/zv/src/typebank.rs"
CAP = 40          # max values per type
COMPONENT_CAP = 6  # max values of a component used inside a depth-2 composite


def rstr(s):
    """Rust string literal."""
    return json.dumps(s, ensure_ascii=False)


def pt(sig):
    return "pt(%s)" % rstr(sig)


class T:
    def __init__(self, rust, sig, vals, kind, shape=None, key=False, eq_hash=False, ord_=False,
                 depth=0, oaa=False, capped=False, unit=False, definition=None, defs=(), tags=(),
                 data_enum=False):
        self.rust = rust            # Rust type expression
        self.sig = sig              # expected signature ("" for unit)
        self.vals = vals            # [(rust expr, RV expr or None for unit)]
        self.kind = kind
        self.shape = shape or kind  # structural description used as the identity of findings
        self.key = key              # usable as map key (basic signature, Eq + Hash)
        self.eq_hash = eq_hash      # supports Eq + Hash
        self.ord = ord_
        self.depth = depth
        self.oaa = oaa
        self.capped = capped
        self.unit = unit
        self.definition = definition  # source text of the definition (None for library/std types)
        self.defs = list(defs)      # definitions needed (transitively), in order
        self.tags = set(tags)       # structural tags (identity of findings), inherited by composites
        self.data_enum = data_enum  # serde sees a data-carrying enum (variant index + payload)


def pick(vals, n):
    """Deterministic reduction of a list to <= n elements: first, last, evenly spaced others."""
    if len(vals) <= n:
        return list(vals), False
    idx = sorted(set(round(i * (len(vals) - 1) / (n - 1)) for i in range(n)))
    return [vals[i] for i in idx], True


def product(lists, cap=CAP):
    """Full product if it fits the cap, else base-choice: all-first, all-last, each varied alone."""
    total = 1
    for l in lists:
        total *= len(l)
    if total <= cap:
        out = [[]]
        for l in lists:
            out = [o + [x] for o in out for x in l]
        return out, False
    first = [l[0] for l in lists]
    last = [l[-1] for l in lists]
    out = [first]
    if last != first:
        out.append(last)
    for i, l in enumerate(lists):
        for x in l[1:]:
            c = list(first)
            c[i] = x
            if c not in out:
                out.append(c)
    return out[:cap], True


# ------------------------------------------------------------------------------------------------
# leaves
# ------------------------------------------------------------------------------------------------

def f64bits(x):
    return "RV::D(0x%016x)" % struct.unpack("<Q", struct.pack("<d", x))[0]


def ints(rust, sig, rv, signed, bits, suffix):
    mx = (1 << (bits - 1)) - 1 if signed else (1 << bits) - 1
    mn = -(1 << (bits - 1))
    vs = [0, -1, mx, mn] if signed else [0, 1, mx]
    vals = []
    for v in vs:
        lit = ("%d%s" % (v, suffix)) if v >= 0 else ("(%d%s)" % (v, suffix))
        if v == mn and signed:
            lit = "%s::MIN" % suffix
        vals.append((lit, "RV::%s(%s)" % (rv, ("%d" % v) if v != mn else "%s::MIN" % rv_int_ty(rv))))
    return T(rust, sig, vals, "prim", "prim:" + rust, key=True, eq_hash=True, ord_=True)


def rv_int_ty(rv):
    return {"Y": "u8", "N": "i16", "Q": "u16", "I": "i32", "U": "u32", "X": "i64", "T": "u64"}[rv]


STRS = ["", "a", "é/€"]

U8 = ints("u8", "y", "Y", False, 8, "u8")
BOOL = T("bool", "b", [("false", "RV::B(false)"), ("true", "RV::B(true)")], "prim", "prim:bool",
         key=True, eq_hash=True, ord_=True)
I16 = ints("i16", "n", "N", True, 16, "i16")
U16 = ints("u16", "q", "Q", False, 16, "u16")
I32 = ints("i32", "i", "I", True, 32, "i32")
U32 = ints("u32", "u", "U", False, 32, "u32")
I64 = ints("i64", "x", "X", True, 64, "i64")
U64 = ints("u64", "t", "T", False, 64, "u64")
F64 = T("f64", "d", [("0.0f64", f64bits(0.0)), ("(-0.0f64)", f64bits(-0.0)), ("1.5f64", f64bits(1.5)),
                     ("f64::MAX", f64bits(1.7976931348623157e308))], "prim", "prim:f64")
STRING = T("String", "s", [("s(%s)" % rstr(x), "RV::S(s(%s))" % rstr(x)) for x in STRS], "prim",
           "prim:String", key=True, eq_hash=True, ord_=True)
# primitives without a wire type of their own
I8 = T("i8", "n", [("0i8", "RV::N(0)"), ("(-1i8)", "RV::N(-1)"), ("i8::MAX", "RV::N(127)"),
                   ("i8::MIN", "RV::N(-128)")], "prim", "prim:i8", key=True, eq_hash=True, ord_=True)
F32 = T("f32", "d", [("0.0f32", f64bits(0.0)), ("1.5f32", f64bits(1.5)), ("(-2.25f32)", f64bits(-2.25))],
        "prim", "prim:f32")
CHAR = T("char", "s", [("'a'", "RV::S(s(\"a\"))"), ("'é'", "RV::S(s(\"é\"))"), ("'€'", "RV::S(s(\"€\"))")],
         "prim", "prim:char", key=True, eq_hash=True, ord_=True)
USIZE = T("usize", "t", [("0usize", "RV::T(0)"), ("1usize", "RV::T(1)"), ("usize::MAX", "RV::T(u64::MAX)")],
          "std", "std:usize", key=True, eq_hash=True, ord_=True)
ISIZE = T("isize", "x", [("0isize", "RV::X(0)"), ("(-1isize)", "RV::X(-1)"), ("isize::MAX", "RV::X(i64::MAX)"),
                         ("isize::MIN", "RV::X(i64::MIN)")], "std", "std:isize", key=True, eq_hash=True, ord_=True)
OPATH = T("OwnedObjectPath", "o",
          [("opath(%s)" % rstr(p), "RV::O(s(%s))" % rstr(p)) for p in ["/", "/a", "/a/b_1"]],
          "lib", "lib:OwnedObjectPath", key=True, eq_hash=True, ord_=True)
SIGNATURE = T("zvariant::Signature", "g",
              [("zsig(%s)" % rstr(p), "RV::G(s(%s))" % rstr(p)) for p in ["", "i", "a{sv}"]],
              "lib", "lib:Signature")
OVALUE = T("OwnedValue", "v", [
    ("oval(Value::U8(1))", "RV::V(Box::new((pt(\"y\"), RV::Y(1))))"),
    ("oval(Value::Str(\"é/€\".into()))", "RV::V(Box::new((pt(\"s\"), RV::S(s(\"é/€\")))))"),
    ("oval(Value::new(vec![1u32, 2u32]))",
     "RV::V(Box::new((pt(\"au\"), RV::Array(pt(\"u\"), vec![RV::U(1), RV::U(2)]))))"),
], "lib", "lib:OwnedValue")

PRIMS = [U8, BOOL, I16, U16, I32, U32, I64, U64, F64, STRING]
EXTRA_PRIMS = [I8, F32, CHAR]
LIB_LEAVES = [OPATH, SIGNATURE, OVALUE]

# ------------------------------------------------------------------------------------------------
# library (std) generic constructors
# ------------------------------------------------------------------------------------------------

def tags_of(*ts):
    out = set()
    for t in ts:
        out |= t.tags
    return out


def all_defs(*ts):
    out = []
    for t in ts:
        for d in t.defs:
            if d not in out:
                out.append(d)
    return out


def comp(t):
    """Values of a component (reduced when used inside a bigger type)."""
    return pick(t.vals, COMPONENT_CAP)


def seq_tags(elem):
    return tags_of(elem) | ({"data_enum_in_array"} if elem.data_enum else set())


def seq_values(elem, mk_expr, depth, is_set=False):
    ev, capped = comp(elem) if depth >= 2 else (elem.vals, False)
    vals = [(mk_expr([]), "RV::Array(%s, vec![])" % pt(elem.sig))]
    for e, r in ev:
        vals.append((mk_expr([e]), "RV::Array(%s, vec![%s])" % (pt(elem.sig), r)))
    for i in range(min(len(ev), 3)):
        if is_set and i + 1 >= len(ev):
            continue  # sets iterate in ascending order: only ascending pairs have a fixed encoding
        a, b = ev[i], ev[(i + 1) % len(ev)]
        vals.append((mk_expr([a[0], b[0]]), "RV::Array(%s, vec![%s, %s])" % (pt(elem.sig), a[1], b[1])))
    return vals, capped


def vec(elem, depth=None):
    depth = depth if depth is not None else elem.depth + 1
    vals, capped = seq_values(elem, lambda es: "vec![%s]" % ", ".join(es) if es else "Vec::<%s>::new()" % elem.rust, depth)
    return T("Vec<%s>" % elem.rust, "a" + elem.sig, vals, "vec", "Vec<%s>" % elem.shape,
             eq_hash=elem.eq_hash, depth=depth, oaa=elem.oaa, capped=capped or elem.capped, defs=elem.defs,
             tags=seq_tags(elem))


def seq_like(rust_name, ctor, elem):
    vals, capped = seq_values(elem, lambda es: "%s::<%s>::from_iter(vec![%s])" % (ctor, elem.rust, ", ".join(es)), 1,
                              is_set="Set" in rust_name)
    return T("%s<%s>" % (rust_name, elem.rust), "a" + elem.sig, vals, "std", "std:%s<%s>" % (rust_name, elem.shape),
             depth=1, defs=elem.defs, tags=seq_tags(elem))


def map_values(k, v, depth):
    kv, c1 = comp(k) if depth >= 2 else (k.vals, False)
    vv, c2 = comp(v) if depth >= 2 else (v.vals, False)
    entries = [[]]
    for i, key in enumerate(kv):
        entries.append([(key, vv[i % len(vv)])])
    for i in range(min(len(kv), 3)):
        j = (i + 1) % len(kv)
        if j == i:
            continue
        entries.append([(kv[i], vv[i % len(vv)]), (kv[j], vv[(i + 1) % len(vv)])])
    return entries, (c1 or c2)


def hashmap(k, v, depth=None, ctor="HashMap"):
    assert k.key, k.rust
    depth = depth if depth is not None else max(k.depth, v.depth) + 1
    entries, capped = map_values(k, v, depth)
    vals = []
    for es in entries:
        expr = "%s::<%s, %s>::from_iter(vec![%s])" % (ctor, k.rust, v.rust, ", ".join("(%s, %s)" % (a[0], b[0]) for a, b in es))
        rv = "RV::Dict(%s, %s, vec![%s])" % (pt(k.sig), pt(v.sig), ", ".join("(%s, %s)" % (a[1], b[1]) for a, b in es))
        vals.append((expr, rv))
    kind = "hashmap" if ctor == "HashMap" else "std"
    return T("%s<%s, %s>" % (ctor, k.rust, v.rust), "a{%s%s}" % (k.sig, v.sig), vals, kind,
             "%s<%s,%s>" % (ctor, k.shape, v.shape), depth=depth, oaa=k.oaa or v.oaa,
             capped=capped or k.capped or v.capped, defs=all_defs(k, v), tags=tags_of(k, v))


def option(elem, depth=None):
    depth = depth if depth is not None else elem.depth + 1
    ev, capped = comp(elem) if depth >= 2 else (elem.vals, False)
    vals = [("None::<%s>" % elem.rust, "RV::Array(%s, vec![])" % pt(elem.sig))]
    for e, r in ev:
        vals.append(("Some(%s)" % e, "RV::Array(%s, vec![%s])" % (pt(elem.sig), r)))
    return T("Option<%s>" % elem.rust, "a" + elem.sig, vals, "option", "Option<%s>" % elem.shape,
             eq_hash=elem.eq_hash, depth=depth, oaa=True, capped=capped or elem.capped, defs=elem.defs,
             tags=seq_tags(elem))


def struct_rv(rvs):
    rvs = [r for r in rvs if r is not None]
    return "RV::Struct(vec![%s])" % ", ".join(rvs)


def fields_product(fields, depth):
    lists, capped = [], False
    for f in fields:
        l, c = comp(f) if depth >= 2 else (f.vals, False)
        lists.append(l)
        capped = capped or c
    combos, c = product(lists)
    return combos, capped or c or any(f.capped for f in fields)


def tuple_(fields, depth=None):
    depth = depth if depth is not None else max(f.depth for f in fields) + 1
    combos, capped = fields_product(fields, depth)
    vals = []
    for c in combos:
        expr = "(%s,)" % ", ".join(x[0] for x in c)
        vals.append((expr, struct_rv([x[1] for x in c])))
    return T("(%s,)" % ", ".join(f.rust for f in fields), "(%s)" % "".join(f.sig for f in fields), vals,
             "tuple", "tuple(%s)" % ",".join(f.shape for f in fields),
             eq_hash=all(f.eq_hash for f in fields), depth=depth, oaa=any(f.oaa for f in fields),
             capped=capped, defs=all_defs(*fields), tags=tags_of(*fields))


# ------------------------------------------------------------------------------------------------
# generated definitions
# ------------------------------------------------------------------------------------------------

_counter = [0]
BASE_DERIVE = "Serialize, Deserialize, Type, PartialEq, Debug, Clone"


def fresh(prefix):
    _counter[0] += 1
    return "%s%03d" % (prefix, _counter[0])


def derive_line(base, eq_hash):
    return "#[derive(%s%s)]" % (base, ", Eq, Hash" if eq_hash else "")


def named_struct(fields, depth=None, kind="struct"):
    depth = depth if depth is not None else max([f.depth for f in fields] + [0]) + 1
    name = fresh("NS")
    eqh = all(f.eq_hash for f in fields)
    body = "".join("    pub f%d: %s,\n" % (i, f.rust) for i, f in enumerate(fields))
    text = "%s\npub struct %s {\n%s}\n" % (derive_line(BASE_DERIVE, eqh), name, body)
    if not fields:
        # zero named fields: documented to be a single 0 byte of signature `y`
        return T(name, "y", [("%s {}" % name, "RV::Y(0)")], "empty-struct", "struct{}", eq_hash=True, depth=1,
                 definition=text, defs=[(name, text, False)])
    combos, capped = fields_product(fields, depth)
    vals = []
    for c in combos:
        expr = "%s { %s }" % (name, ", ".join("f%d: %s" % (i, x[0]) for i, x in enumerate(c)))
        vals.append((expr, struct_rv([x[1] for x in c])))
    oaa = any(f.oaa for f in fields)
    return T(name, "(%s)" % "".join(f.sig for f in fields), vals, kind,
             "struct{%s}" % ",".join(f.shape for f in fields), eq_hash=eqh, depth=depth, oaa=oaa,
             capped=capped, definition=text, defs=all_defs(*fields) + [(name, text, oaa)], tags=tags_of(*fields))


def tuple_struct(fields, depth=None):
    assert len(fields) >= 2
    depth = depth if depth is not None else max(f.depth for f in fields) + 1
    name = fresh("TS")
    eqh = all(f.eq_hash for f in fields)
    text = "%s\npub struct %s(%s);\n" % (derive_line(BASE_DERIVE, eqh), name, ", ".join("pub " + f.rust for f in fields))
    combos, capped = fields_product(fields, depth)
    vals = [("%s(%s)" % (name, ", ".join(x[0] for x in c)), struct_rv([x[1] for x in c])) for c in combos]
    oaa = any(f.oaa for f in fields)
    return T(name, "(%s)" % "".join(f.sig for f in fields), vals, "tuple-struct",
             "tuple-struct(%s)" % ",".join(f.shape for f in fields), eq_hash=eqh, depth=depth, oaa=oaa,
             capped=capped, definition=text, defs=all_defs(*fields) + [(name, text, oaa)], tags=tags_of(*fields))


def newtype(inner, depth=None):
    depth = depth if depth is not None else inner.depth + 1
    name = fresh("NT")
    text = "%s\npub struct %s(pub %s);\n" % (derive_line(BASE_DERIVE, inner.eq_hash), name, inner.rust)
    ev, capped = comp(inner) if depth >= 2 else (inner.vals, False)
    vals = [("%s(%s)" % (name, e), r) for e, r in ev]
    return T(name, inner.sig, vals, "newtype", "newtype(%s)" % inner.shape, key=inner.key, eq_hash=inner.eq_hash,
             depth=depth, oaa=inner.oaa, capped=capped or inner.capped, definition=text,
             defs=all_defs(inner) + [(name, text, inner.oaa)], tags=tags_of(inner), data_enum=inner.data_enum)


def unit_struct():
    name = fresh("US")
    text = "%s\npub struct %s;\n" % (derive_line(BASE_DERIVE, True), name)
    return T(name, "", [(name, None)], "unit-struct", "unit-struct", eq_hash=True, depth=1, unit=True,
             definition=text, defs=[(name, text, False)])


REPRS = {"u8": ("y", "Y"), "i8": ("n", "N"), "i16": ("n", "N"), "u16": ("q", "Q"), "i32": ("i", "I"),
         "u32": ("u", "U"), "i64": ("x", "X"), "u64": ("t", "T"), "usize": ("t", "T"), "isize": ("x", "X")}


def repr_enum(repr_, discs):
    """`#[repr(X)]` unit enum with serde_repr, as the derive documentation prescribes."""
    name = fresh("RE")
    sig, rv = REPRS[repr_]
    variants = "".join("    V%d = %d,\n" % (i, d) for i, d in enumerate(discs))
    text = ("#[repr(%s)]\n#[derive(Serialize_repr, Deserialize_repr, Type, PartialEq, Debug, Clone, Eq, Hash)]\n"
            "pub enum %s {\n%s}\n" % (repr_, name, variants))
    vals = [("%s::V%d" % (name, i), "RV::%s(%d)" % (rv, d)) for i, d in enumerate(discs)]
    return T(name, sig, vals, "unit-enum-repr", "unit-enum-repr(%s)" % repr_, key=True, eq_hash=True, depth=1,
             definition=text, defs=[(name, text, False)])


def index_enum(n, repr_u32=False):
    """Unit enum with plain serde derives: variant index as u32 (`#[repr(u32)]` changes nothing)."""
    name = fresh("IE")
    variants = "".join("    V%d,\n" % i for i in range(n))
    text = "%s%s\npub enum %s {\n%s}\n" % ("#[repr(u32)]\n" if repr_u32 else "", derive_line(BASE_DERIVE, True), name, variants)
    vals = [("%s::V%d" % (name, i), "RV::U(%d)" % i) for i in range(n)]
    return T(name, "u", vals, "unit-enum-index", "unit-enum-index" + ("(repr u32)" if repr_u32 else ""),
             key=True, eq_hash=True, depth=1, definition=text, defs=[(name, text, False)])


def str_enum(names, rename_all=None):
    """Unit enum serialized as the variant name (`#[zvariant(signature = "s")]`)."""
    name = fresh("SE")
    variants = "".join("    %s,\n" % v for v in names)
    ser = {"kebab-case": lambda v: "".join(("-" + c.lower()) if c.isupper() and i else c.lower() for i, c in enumerate(v))}
    attr = "#[serde(rename_all = %s)]\n" % rstr(rename_all) if rename_all else ""
    text = "%s\n#[zvariant(signature = \"s\")]\n%spub enum %s {\n%s}\n" % (derive_line(BASE_DERIVE, True), attr, name, variants)
    vals = [("%s::%s" % (name, v), "RV::S(s(%s))" % rstr(ser[rename_all](v) if rename_all else v)) for v in names]
    return T(name, "s", vals, "unit-enum-str", "unit-enum-str" + ("(renamed)" if rename_all else ""),
             key=True, eq_hash=True, depth=1, definition=text, defs=[(name, text, False)])


def data_enum(variant_kinds, fields, depth=None):
    """Data-carrying enum; every variant has the same field types (the derive requires it).
    variant_kinds: list of 'newtype' | 'tuple' | 'struct'."""
    depth = depth if depth is not None else max(f.depth for f in fields) + 1
    name = fresh("DE")
    eqh = all(f.eq_hash for f in fields)
    lines = []
    for i, k in enumerate(variant_kinds):
        if k == "newtype":
            assert len(fields) == 1
            lines.append("    V%d(%s),\n" % (i, fields[0].rust))
        elif k == "tuple":
            assert len(fields) >= 2
            lines.append("    V%d(%s),\n" % (i, ", ".join(f.rust for f in fields)))
        else:
            lines.append("    V%d { %s },\n" % (i, ", ".join("f%d: %s" % (j, f.rust) for j, f in enumerate(fields))))
    text = "%s\npub enum %s {\n%s}\n" % (derive_line(BASE_DERIVE, eqh), name, "".join(lines))
    if variant_kinds[0] == "newtype":
        payload_sig = fields[0].sig
    else:
        payload_sig = "(%s)" % "".join(f.sig for f in fields)
    combos, capped = fields_product(fields, max(depth, 2))
    combos, c2 = pick(combos, max(2, CAP // len(variant_kinds)))
    vals = []
    for i, k in enumerate(variant_kinds):
        for c in combos:
            if k == "newtype":
                expr, payload = "%s::V%d(%s)" % (name, i, c[0][0]), c[0][1]
            elif k == "tuple":
                expr, payload = "%s::V%d(%s)" % (name, i, ", ".join(x[0] for x in c)), struct_rv([x[1] for x in c])
            else:
                expr = "%s::V%d { %s }" % (name, i, ", ".join("f%d: %s" % (j, x[0]) for j, x in enumerate(c)))
                payload = struct_rv([x[1] for x in c])
            vals.append((expr, "RV::Struct(vec![RV::U(%d), %s])" % (i, payload)))
    oaa = any(f.oaa for f in fields)
    return T(name, "(u%s)" % payload_sig, vals, "data-enum",
             "data-enum[%s](%s)" % ("/".join(variant_kinds), ",".join(f.shape for f in fields)), eq_hash=eqh,
             depth=depth, oaa=oaa, capped=capped or c2, definition=text, defs=all_defs(*fields) + [(name, text, oaa)],
             data_enum=True,
             tags=tags_of(*fields) | ({"newtype_variant_struct_payload"}
                                      if "newtype" in variant_kinds and fields[0].sig.startswith("(") else set()))


PASCAL = lambda s: "".join(p.capitalize() for p in s.split("_"))


def dict_struct(fields, style="derive", rename_all=None, sig_attr="a{sv}", depth=None):
    """Struct encoded as a{sv}.  fields: list of (T, optional: bool).
    style 'derive': SerializeDict/DeserializeDict; 'as_value': serde derives + `as_value` helpers."""
    depth = depth if depth is not None else max(f.depth for f, _ in fields) + 1
    name = fresh("DS")
    names = ["field_%s" % "abcdefgh"[i] for i in range(len(fields))]
    keys = [PASCAL(n) if rename_all == "PascalCase" else n for n in names]
    lines = []
    for (f, opt), n in zip(fields, names):
        ty = "Option<%s>" % f.rust if opt else f.rust
        if style == "as_value":
            if opt:
                lines.append("    #[serde(with = \"as_value::optional\", skip_serializing_if = \"Option::is_none\", default)]\n")
            else:
                lines.append("    #[serde(with = \"as_value\")]\n")
        lines.append("    pub %s: %s,\n" % (n, ty))
    if style == "derive":
        attrs = "#[derive(SerializeDict, DeserializeDict, Type, PartialEq, Debug, Clone)]\n#[zvariant(signature = %s%s)]\n" % (
            rstr(sig_attr), ", rename_all = %s" % rstr(rename_all) if rename_all else "")
    else:
        attrs = "#[derive(Serialize, Deserialize, Type, PartialEq, Debug, Clone)]\n#[zvariant(signature = %s)]\n%s" % (
            rstr(sig_attr), "#[serde(rename_all = %s)]\n" % rstr(rename_all) if rename_all else "")
    text = "%spub struct %s {\n%s}\n" % (attrs, name, "".join(lines))
    lists, capped = [], False
    for f, opt in fields:
        l, c = comp(f) if depth >= 2 else (f.vals, False)
        capped = capped or c
        l = [(e, "RV::V(Box::new((%s, %s)))" % (pt(f.sig), r)) for e, r in l]
        if opt:
            l = [("None", None)] + [("Some(%s)" % e, r) for e, r in l]
        lists.append(l)
    combos, c = product(lists)
    vals = []
    for cmb in combos:
        expr = "%s { %s }" % (name, ", ".join("%s: %s" % (n, x[0]) for n, x in zip(names, cmb)))
        entries = ["(RV::S(s(%s)), %s)" % (rstr(k), x[1]) for k, x in zip(keys, cmb) if x[1] is not None]
        vals.append((expr, "RV::Dict(pt(\"s\"), pt(\"v\"), vec![%s])" % ", ".join(entries)))
    oaa = any(f.oaa for f, _ in fields)
    return T(name, "a{sv}", vals, "dict-struct",
             "dict-struct[%s](%s)" % (style, ",".join(("opt:" if o else "") + f.shape for f, o in fields)),
             depth=depth, oaa=oaa, capped=capped or c or any(f.capped for f, _ in fields), definition=text,
             defs=all_defs(*[f for f, _ in fields]) + [(name, text, oaa)], tags=tags_of(*[f for f, _ in fields]))


# ------------------------------------------------------------------------------------------------
# std / net / time impls of the library
# ------------------------------------------------------------------------------------------------

def std_types():
    out = []

    def std(rust, sig, vals, shape, **kw):
        out.append(T(rust, sig, vals, "std", "std:" + shape, depth=1, **kw))

    def tu(secs, nanos):
        return "RV::Struct(vec![RV::T(%s), RV::U(%d)])" % (secs, nanos)

    std("Duration", "(tu)", [("Duration::ZERO", tu("0", 0)), ("Duration::new(1, 5)", tu("1", 5)),
                             ("Duration::new(1_700_000_000, 999_999_999)", tu("1700000000", 999999999)),
                             ("Duration::MAX", tu("u64::MAX", 999999999))], "Duration", eq_hash=True)
    std("SystemTime", "(tu)", [("SystemTime::UNIX_EPOCH", tu("0", 0)),
                               ("(SystemTime::UNIX_EPOCH + Duration::new(1, 5))", tu("1", 5)),
                               ("(SystemTime::UNIX_EPOCH + Duration::new(1_700_000_000, 999_999_999))",
                                tu("1700000000", 999999999))], "SystemTime", eq_hash=True)

    def octets_struct(bs):
        return "RV::Struct(vec![%s])" % ", ".join("RV::Y(%d)" % b for b in bs)

    def octets_array(bs):
        return "RV::Array(pt(\"y\"), vec![%s])" % ", ".join("RV::Y(%d)" % b for b in bs)

    v4s = [[0, 0, 0, 0], [127, 0, 0, 1], [255, 255, 255, 255]]
    v6s = [[0] * 16, [0] * 15 + [1], [0x20, 0x01, 0x0d, 0xb8] + [0] * 8 + [0xff, 0xfe, 0, 9]]
    v4e = lambda b: "Ipv4Addr::new(%s)" % ", ".join(map(str, b))
    v6e = lambda b: "Ipv6Addr::from([%s])" % ", ".join("%du8" % x for x in b)
    std("Ipv4Addr", "(yyyy)", [(v4e(b), octets_struct(b)) for b in v4s], "Ipv4Addr", eq_hash=True)
    std("Ipv6Addr", "(%s)" % ("y" * 16), [(v6e(b), octets_struct(b)) for b in v6s], "Ipv6Addr", eq_hash=True)
    std("IpAddr", "(uay)",
        [("IpAddr::V4(%s)" % v4e(b), "RV::Struct(vec![RV::U(0), %s])" % octets_array(b)) for b in v4s[1:]] +
        [("IpAddr::V6(%s)" % v6e(b), "RV::Struct(vec![RV::U(1), %s])" % octets_array(b)) for b in v6s[1:]],
        "IpAddr", eq_hash=True, data_enum=True)
    ports = [0, 8080, 65535]
    std("SocketAddrV4", "((yyyy)q)",
        [("SocketAddrV4::new(%s, %d)" % (v4e(b), p), "RV::Struct(vec![%s, RV::Q(%d)])" % (octets_struct(b), p))
         for b, p in zip(v4s, ports)], "SocketAddrV4", eq_hash=True)
    std("SocketAddrV6", "((%s)q)" % ("y" * 16),
        [("SocketAddrV6::new(%s, %d, 0, 0)" % (v6e(b), p), "RV::Struct(vec![%s, RV::Q(%d)])" % (octets_struct(b), p))
         for b, p in zip(v6s, ports)], "SocketAddrV6", eq_hash=True)
    std("std::ops::Range<u32>", "(uu)", [("(0u32..0u32)", "RV::Struct(vec![RV::U(0), RV::U(0)])"),
                                         ("(1u32..5u32)", "RV::Struct(vec![RV::U(1), RV::U(5)])"),
                                         ("(0u32..u32::MAX)", "RV::Struct(vec![RV::U(0), RV::U(u32::MAX)])")], "Range<u32>")
    std("std::ops::RangeFrom<u8>", "(y)", [("(0u8..)", "RV::Struct(vec![RV::Y(0)])"), ("(255u8..)", "RV::Struct(vec![RV::Y(255)])")], "RangeFrom<u8>")
    std("std::ops::RangeInclusive<i64>", "(xx)", [("(0i64..=1i64)", "RV::Struct(vec![RV::X(0), RV::X(1)])"),
                                                  ("(i64::MIN..=i64::MAX)", "RV::Struct(vec![RV::X(i64::MIN), RV::X(i64::MAX)])")], "RangeInclusive<i64>")
    std("std::ops::RangeTo<u16>", "(q)", [("(..7u16)", "RV::Struct(vec![RV::Q(7)])"), ("(..u16::MAX)", "RV::Struct(vec![RV::Q(65535)])")], "RangeTo<u16>")
    out.append(USIZE)
    out.append(ISIZE)
    std("[u8; 2]", "(yy)", [("[0u8, 255u8]", "RV::Struct(vec![RV::Y(0), RV::Y(255)])"), ("[1u8, 2u8]", "RV::Struct(vec![RV::Y(1), RV::Y(2)])")], "[u8;2]")
    std("[u32; 0]", "y", [("[0u32; 0]", "RV::Y(0)")], "[u32;0]")
    std("std::num::Wrapping<u32>", "u", [("std::num::Wrapping(0u32)", "RV::U(0)"), ("std::num::Wrapping(u32::MAX)", "RV::U(u32::MAX)")], "Wrapping<u32>")
    std("Box<String>", "s", [("Box::new(%s)" % e, r) for e, r in STRING.vals], "Box<String>")
    std("std::num::NonZeroU8", "y", [("std::num::NonZeroU8::new(1).unwrap()", "RV::Y(1)"), ("std::num::NonZeroU8::new(255).unwrap()", "RV::Y(255)")], "NonZeroU8")
    std("()", "", [("()", None)], "()", unit=True)
    std("zvariant::Optional<u32>", "u", [("zvariant::Optional::<u32>::from(None)", "RV::U(0)"), ("zvariant::Optional::from(Some(7u32))", "RV::U(7)")], "Optional<u32>")
    out.append(hashmap(STRING, U32, depth=1, ctor="BTreeMap"))
    out.append(seq_like("BTreeSet", "std::collections::BTreeSet", U8))
    # PhantomData<T>: the library declares T's signature for it.
    out.append(T("PhantomData<u32>", "u", [("PhantomData::<u32>", "RV::U(0)")], "std", "std:PhantomData<u32>", depth=1, eq_hash=True,
                 tags={"phantomdata"}))
    return out


# ------------------------------------------------------------------------------------------------
# the bank
# ------------------------------------------------------------------------------------------------

def build_bank():
    bank = []

    def add(t):
        bank.append(t)
        return t

    # depth 0: primitives and library leaves
    for t in PRIMS + EXTRA_PRIMS + LIB_LEAVES:
        add(t)
    # std / net / time impls
    for t in std_types():
        add(t)

    # depth 1 -----------------------------------------------------------------------------------
    core = [U8, BOOL, U32, I64, F64, STRING]
    for t in [U8, U32, STRING, F64, OVALUE]:
        add(vec(t))
    for k, v in [(STRING, U32), (U8, STRING), (STRING, OVALUE), (CHAR, F64)]:
        add(hashmap(k, v))
    for t in [U8, STRING, F64]:
        add(option(t))
    for fs in [[U8], [U8, U64], [STRING, BOOL]]:
        add(tuple_(fs))
    for fs in [[], [U64], [STRING], [U8, U64], [U8, STRING], [BOOL, I16], [I8, F32], [CHAR, USIZE], [OPATH, SIGNATURE]]:
        add(named_struct(fs))
    for fs in [[U8, U64], [STRING, BOOL], [F64, U8]]:
        add(tuple_struct(fs))
    for t in [U8, BOOL, I64, F64, STRING, I8, OVALUE]:
        add(newtype(t))
    unit = add(unit_struct())
    for r, discs in [("u8", [0, 1, 255]), ("u32", [0, 7, 4294967295]), ("i16", [-32768, 0, 5]), ("i64", [-1, 0, 9223372036854775807]),
                     ("i8", [-128, 127]), ("u16", [0, 65535]), ("i32", [-2147483648, 3]), ("u64", [0, 18446744073709551615]),
                     ("usize", [0, 18446744073709551615]), ("isize", [-9223372036854775808, 2])]:
        add(repr_enum(r, discs))
    add(index_enum(3))
    add(index_enum(2, repr_u32=True))
    add(str_enum(["Variant1", "Variant2", "Variant3"]))
    add(str_enum(["VariantOne", "Two"], rename_all="kebab-case"))
    add(data_enum(["newtype", "newtype"], [F64]))
    add(data_enum(["newtype", "newtype", "newtype"], [STRING]))
    add(data_enum(["tuple", "tuple"], [U16, I64]))
    add(data_enum(["struct", "struct"], [U8, STRING]))
    add(data_enum(["tuple", "struct"], [U16, I64]))
    add(data_enum(["struct"], [BOOL]))
    add(dict_struct([(U32, False)]))
    add(dict_struct([(STRING, False), (U8, False)]))
    add(dict_struct([(U32, True), (STRING, False)], sig_attr="dict"))
    add(dict_struct([(U64, False), (STRING, True)], rename_all="PascalCase"))
    add(dict_struct([(U16, False), (I64, False)], style="as_value"))
    add(dict_struct([(U32, True), (STRING, False)], style="as_value", rename_all="PascalCase"))
    add(dict_struct([(F64, True), (BOOL, True)]))
    # unit struct as a field (contributes nothing to signature or bytes)
    add(named_struct([U8, unit], depth=2))
    add(tuple_struct([unit, U32], depth=2))
    add(tuple_([U16, T("()", "", [("()", None)], "std", "std:()", unit=True, eq_hash=True)], depth=2))
    add(named_struct([U8, T("PhantomData<u32>", "u", [("PhantomData::<u32>", "RV::U(0)")], "std", "std:PhantomData<u32>", eq_hash=True,
                               tags={"phantomdata"})], depth=2))

    # depth 2: every outer constructor over every depth-1 representative -----------------------------
    reps = [
        named_struct([U8, U64], kind="struct"),
        newtype(STRING),
        repr_enum("u8", [0, 1, 255]),
        str_enum(["Variant1", "Variant2"]),
        data_enum(["newtype", "newtype"], [F64]),
        data_enum(["struct", "struct"], [U8, STRING]),
        dict_struct([(U32, False), (STRING, True)]),
        vec(U8),
        hashmap(STRING, U32),
        option(U32),
        [t for t in std_types() if t.rust == "Duration"][0],
        [t for t in std_types() if t.rust == "IpAddr"][0],
    ]
    for x in reps:
        d = 2
        add(vec(x, depth=d))
        add(hashmap(STRING, x, depth=d))
        if x.key:
            add(hashmap(x, U8, depth=d))
        add(option(x, depth=d))
        add(named_struct([U8, x], depth=d))
        add(newtype(x, depth=d))
        add(data_enum(["newtype", "newtype"], [x], depth=d))
        add(data_enum(["tuple", "struct"], [U8, x], depth=d))
        if x.kind != "option":
            # (an `Option<..>` field type IS the optional-field form of the dict derives)
            add(dict_struct([(x, False), (x, True)], depth=d))
    return bank


# ------------------------------------------------------------------------------------------------
# emission
# ------------------------------------------------------------------------------------------------

HEADER = '''// @generated by /verif/engines/gen/types.py -- DO NOT EDIT (edit the generator and re-run it).
// Type bank for C09: generated Rust type definitions, each with the signature and the value trees
// the documented mapping rules predict (computed by the generator, independently of zvariant).
#![allow(clippy::all, non_camel_case_types, unused_imports, unused_parens)]

use crate::rv::{parse_ty, Ty, RV};
use serde::{de::DeserializeOwned, Deserialize, Serialize};
use serde_repr::{Deserialize_repr, Serialize_repr};
use std::collections::{BTreeMap, BTreeSet, HashMap, VecDeque};
use std::marker::PhantomData;
use std::net::{IpAddr, Ipv4Addr, Ipv6Addr, SocketAddrV4, SocketAddrV6};
use std::time::{Duration, SystemTime};
use zvariant::{as_value, DeserializeDict, OwnedObjectPath, OwnedValue, SerializeDict, Type, Value};

fn pt(sig: &str) -> Ty {
    parse_ty(sig).expect("bank signature")
}
fn s(x: &str) -> String {
    x.to_string()
}
fn opath(x: &str) -> OwnedObjectPath {
    OwnedObjectPath::try_from(x).expect("bank object path")
}
fn zsig(x: &str) -> zvariant::Signature {
    zvariant::Signature::try_from(x).expect("bank signature value")
}
fn oval(v: Value<'static>) -> OwnedValue {
    OwnedValue::try_from(v).expect("bank value")
}

/// Static description of one bank entry.
pub struct Meta {
    /// position in the generator's enumeration (stable across feature builds)
    pub index: usize,
    pub rust: &'static str,
    pub kind: &'static str,
    /// structural description, e.g. `HashMap<prim:String,struct{prim:u8,prim:u64}>`
    pub shape: &'static str,
    pub depth: u8,
    /// signature predicted by the documented mapping rules ("" = unit: no bytes at all)
    pub expected_signature: &'static str,
    /// source text of the generated definitions this entry consists of, dependencies first
    /// ("" for library/std types)
    pub definition: &'static str,
    /// the entry itself is a generated definition with derives (counted as a program)
    pub derived: bool,
    /// structural tags (comma separated, sorted), e.g. `data_enum_in_array`: identity of findings
    pub tags: &'static str,
    /// value list was reduced (base-choice / component cap)
    pub capped: bool,
    /// only exists in the option-as-array build
    pub oaa: bool,
}

pub trait Visitor {
    fn visit<T>(&mut self, meta: &Meta, values: fn() -> Vec<(T, RV)>)
    where
        T: Serialize + DeserializeOwned + Type + PartialEq + std::fmt::Debug + Clone;
}

/// Marker RV of unit types (no bytes).
pub fn unit_rv() -> RV {
    RV::Struct(vec![])
}
'''


def emit(bank):
    out = [HEADER]
    # definitions, once each, in dependency order
    seen = set()
    n_defs = 0
    out.append("\n// ---------------------------------------------------------------- definitions\n")
    for t in bank:
        for name, text, oaa in t.defs:
            if name in seen:
                continue
            seen.add(name)
            n_defs += 1
            if oaa:
                text = "".join("#[cfg(feature = \"option-as-array\")]\n" + text)
            out.append(text + "\n")
    out.append("// ---------------------------------------------------------------- values\n")
    for i, t in enumerate(bank):
        cfg = "#[cfg(feature = \"option-as-array\")]\n" if t.oaa else ""
        lines = []
        for e, r in t.vals:
            lines.append("        (%s, %s),\n" % (e, r if r is not None else "unit_rv()"))
        out.append("%sfn values_%d() -> Vec<(%s, RV)> {\n    vec![\n%s    ]\n}\n\n" % (cfg, i, t.rust, "".join(lines)))
    out.append("// ---------------------------------------------------------------- entries\n")
    out.append("pub const BANK_TYPES: usize = %d;\n" % len(bank))
    out.append("pub const BANK_TYPES_OAA_ONLY: usize = %d;\n" % len([t for t in bank if t.oaa]))
    out.append("pub const DEFINITIONS: usize = %d;\n" % n_defs)
    out.append("pub const VALUE_CAP: usize = %d;\npub const COMPONENT_CAP: usize = %d;\n\n" % (CAP, COMPONENT_CAP))
    out.append("pub static METAS: [Meta; %d] = [\n" % len(bank))
    for i, t in enumerate(bank):
        own_def = "".join(text for _, text, _ in t.defs)
        out.append("    Meta { index: %d, rust: %s, kind: %s, shape: %s, depth: %d, expected_signature: %s, definition: %s, derived: %s, tags: %s, capped: %s, oaa: %s },\n" % (
            i, rstr(t.rust), rstr(t.kind), rstr(t.shape), t.depth, rstr(t.sig), rstr(own_def),
            "true" if t.definition else "false", rstr(",".join(sorted(t.tags))),
            "true" if t.capped else "false", "true" if t.oaa else "false"))
    out.append("];\n\n")
    out.append("/// Calls `v.visit::<T>(meta, values)` for every bank entry that exists in this build.\n")
    out.append("pub fn visit_all<V: Visitor>(v: &mut V) {\n")
    for i, t in enumerate(bank):
        if t.oaa:
            out.append("    #[cfg(feature = \"option-as-array\")]\n")
        out.append("    v.visit::<%s>(&METAS[%d], values_%d);\n" % (t.rust, i, i))
    out.append("}\n")
    return "".join(out), n_defs


def main():
    bank = build_bank()
    text, n_defs = emit(bank)
    with open(OUT, "w", encoding="utf-8") as f:
        f.write(text)
    n_vals = sum(len(t.vals) for t in bank)
    sys.stderr.write("typebank: %d bank types (%d only with option-as-array), %d generated definitions, %d values, %d capped types -> %s\n" % (
        len(bank), len([t for t in bank if t.oaa]), n_defs, n_vals, len([t for t in bank if t.capped]), OUT))


if __name__ == "__main__":
    main()
