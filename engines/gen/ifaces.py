#!/usr/bin/env python3
"""Deterministic generator of the interface bank used by C26 / C27 / C33.

Enumerates (no randomness) a grammar of `#[zbus::interface]` impls with matching
`#[zbus::proxy]` traits and writes /verif/engines/zb/src/bank.rs:

  * methods: every input shape of 0..2 arguments over {u, s, (us), as, v} (31 shapes) combined
    with output kinds {unit, u, (u,s) tuple, derived struct, Vec<String>}; the remaining
    dimensions {sync, async} x {&self, &mut self} x fallibility {plain, fdo Ok, fdo Err, error
    chosen by the input, custom DBusError} x argument style {owned, borrowed/struct} x naming
    {default PascalCase, explicit name} x doc-comment kind are assigned by fixed strides; the
    generator asserts that every pair of values of (output, async, mut, fallibility) occurs and
    that every argument type occurs at every position with every output kind;
  * properties over {u, s, as} x {read, readwrite} x emits-changed {true, false};
  * signals with 0..2 arguments (all 31 shapes);
  * 8 interfaces (two of them with `spawn = false`, two whose proxy is derived by the interface
    macro's `proxy(...)` attribute instead of a hand-written trait) laid out on 3 paths;
  * doc comments over {none, plain (two lines), "<a & b>", "]]>", a double quote, "--", "-->"}.
    The last two are confined to the two interfaces living on the deep leaf path so that the
    other two paths stay comparable when those break the XML.

Run:  python3 /verif/engines/gen/ifaces.py            (rewrites bank.rs)
      python3 /verif/engines/gen/ifaces.py --check    (exit 1 if bank.rs is stale)
The output is committed; regenerate only when this file changes.
"""
import itertools
import os
import sys

OUT = os.path.join(os.path.dirname(os.path.abspath(__file__)), "..", "zb", "src", "bank.rs")

TYPES = ["u", "s", "us", "as", "v"]
SIG = {"u": "u", "s": "s", "us": "(us)", "as": "as", "v": "v"}
OUTS = ["Unit", "U", "Tup", "Rec", "VecS"]
OUT_SIG = {"Unit": "", "U": "u", "Tup": "us", "Rec": "(usas)", "VecS": "as"}
OUT_TY = {"Unit": "()", "U": "u32", "Tup": "(u32, String)", "Rec": "Rec", "VecS": "Vec<String>"}
FALLS = ["Plain", "Ok", "Err", "Dyn", "Custom"]

N_IFACES = 8
LAYOUT = {  # iface -> registered paths (instance tag = index into ALL_PATHS)
    0: ["/bank"],
    1: ["/bank"],
    2: ["/bank"],
    3: ["/bank/x"],
    4: ["/bank/x"],
    5: ["/bank/x", "/bank"],
    6: ["/other/deep/leaf"],
    7: ["/other/deep/leaf"],
}
SPAWN_FALSE = {1, 4}
DERIVED_PROXY = {2, 5}
# doc kinds: 0 none, 1 plain two lines, 2 <a & b>, 3 ]]>, 4 double quote, 5 "--", 6 "-->",
# 7 "---", 8 a longer run of hyphens and a trailing hyphen
DOCS = {
    0: [],
    1: ["Plain words.", "Second line of the plain doc."],
    2: ["Compares <a & b> for you."],
    3: ["Ends a CDATA section ]]> in the middle."],
    4: ['Says "hi" in double quotes.'],
    5: ["A dash pair -- inside the text."],
    6: ["An arrow --> inside the text."],
    7: ["A horizontal rule --- in the text."],
    8: ["A table separator |-----| and a dash at the end -"],
}
BENIGN_DOCS = [1, 2, 3, 4, 0]


def pascal(s):
    return "".join(p[:1].upper() + p[1:] for p in s.split("_") if p)


def shapes():
    out = [()]
    out += [(a,) for a in TYPES]
    out += [(a, b) for a in TYPES for b in TYPES]
    return out


def doc_for(iface, k):
    """Doc kind of the k-th documented member of an interface."""
    if iface == 6:
        return [5, 7, 2, 8, 0, 4][k % 6]
    if iface == 7:
        return [6, 3, 1, 6, 0, 2][k % 6]
    return BENIGN_DOCS[k % len(BENIGN_DOCS)]


# ------------------------------------------------------------------------------------------
# enumeration of methods
# ------------------------------------------------------------------------------------------

def enumerate_methods():
    ms = []
    sh = shapes()
    for k, shape in enumerate(sh):
        if len(shape) < 2:
            outs = list(range(5))
        else:
            # three of the five output kinds per two-argument shape, rotating with both positions
            base = (TYPES.index(shape[0]) + 2 * TYPES.index(shape[1])) % 5
            outs = sorted({base, (base + 1) % 5, (base + 3) % 5})
        for o in outs:
            i = len(ms)
            m = {
                "id": i,
                "shape": shape,
                "out": OUTS[o],
                "async": (i % 2) == 1,
                "mut": ((i // 2) % 2) == 1,
                "fall": FALLS[(i // 4 + o + (i // 20)) % 5],
                "style": (i // 3) % 2,
                "named": (i % 7) == 3,
                "iface": i % N_IFACES,
            }
            ms.append(m)
    per_iface = {}
    for m in ms:
        j = per_iface.get(m["iface"], 0)
        per_iface[m["iface"]] = j + 1
        m["doc"] = doc_for(m["iface"], j)
        tag = "_".join(m["shape"]) if m["shape"] else "none"
        m["rust"] = "m%03d_%s" % (m["id"], tag)
        # explicit names are used verbatim: lower-case first letter and underscores included
        m["member"] = (("call%d" if m["id"] % 2 else "Call_%d") % m["id"]) if m["named"] else pascal(m["rust"])
    # coverage assertions (the enumeration is a covering design, checked here)
    dims = ["out", "async", "mut", "fall"]
    doms = {"out": OUTS, "async": [False, True], "mut": [False, True], "fall": FALLS}
    for a, b in itertools.combinations(dims, 2):
        seen = {(m[a], m[b]) for m in ms}
        for x in doms[a]:
            for y in doms[b]:
                assert (x, y) in seen, ("pair not covered", a, x, b, y)
    for pos in range(2):
        for t in TYPES:
            for o in OUTS:
                assert any(len(m["shape"]) > pos and m["shape"][pos] == t and m["out"] == o for m in ms), (pos, t, o)
    for j in range(N_IFACES):
        for f in FALLS:
            pass
    return ms


def enumerate_props():
    ps = []
    t3 = ["u", "s", "as"]
    for j in range(N_IFACES):
        for k in range(3):
            x = j + k
            p = {
                "iface": j,
                "idx": k,
                "ty": t3[x % 3],
                "writable": (x % 2) == 1,
                "emits": ((j + 2 * k) % 3) != 2,
                "async_get": (x % 4) >= 2,
                "mut_set": (j % 2) == 0,
                "fallible_set": (x % 3) == 1,
                "doc": doc_for(j, 100 + k),
            }
            p["rust"] = "p%d%s" % (j, "abc"[k])
            if (j, k) in ((0, 1), (3, 0)):
                # a writable property whose own name starts with `set_` (setter: set_set_…)
                assert p["writable"]
                p["rust"] = "set_" + p["rust"]
            # every fifth property has an explicit D-Bus name that differs from the one derived
            # from its Rust name
            p["named"] = (3 * j + k) % 5 == 2
            p["name"] = ("renamed_%d%s" % (j, "xyz"[k])) if p["named"] else pascal(p["rust"])
            ps.append(p)
    combos = {(p["ty"], p["writable"]) for p in ps}
    assert len(combos) == 6
    return ps


def enumerate_signals():
    ss = []
    sh = shapes()
    for n in range(N_IFACES * 4):
        j, k = n % N_IFACES, n // N_IFACES
        shape = sh[n % len(sh)]
        s = {
            "iface": j,
            "idx": k,
            "shape": shape,
            "style": n % 2,
            "doc": doc_for(j, 200 + k),
        }
        s["rust"] = "sg%d%s" % (j, "abcd"[k])
        s["member"] = pascal(s["rust"])
        ss.append(s)
    assert {s["shape"] for s in ss} == set(sh)
    return ss


# ------------------------------------------------------------------------------------------
# Rust types per position
# ------------------------------------------------------------------------------------------

def srv_arg_ty(t, style):
    """Type of a handler argument."""
    if style == 0:
        return {"u": "u32", "s": "String", "us": "(u32, String)", "as": "Vec<String>", "v": "OwnedValue"}[t]
    return {"u": "u32", "s": "&str", "us": "Pair", "as": "Vec<&str>", "v": "Value<'_>"}[t]


def prx_arg_ty(t, style):
    """Type of a hand-written proxy argument."""
    if style == 0:
        return {"u": "u32", "s": "&str", "us": "&(u32, &str)", "as": "&[&str]", "v": "&Value<'_>"}[t]
    return {"u": "u32", "s": "String", "us": "Pair", "as": "Vec<String>", "v": "OwnedValue"}[t]


def call_expr(t, ty, i):
    """(statements, expression) passing args[i] (a Val) as Rust type `ty`."""
    a = "&args[%d]" % i
    if t == "u":
        return "", "val_u(%s)" % a
    if t == "s":
        pre = "let t%d = val_s(%s); " % (i, a)
        return pre, {"String": "t%d.clone()" % i, "&str": "t%d.as_str()" % i}[ty]
    if t == "us":
        pre = "let t%d = val_us(%s); " % (i, a)
        return pre, {
            "(u32, String)": "t%d.clone()" % i,
            "&(u32, &str)": "&(t%d.0, t%d.1.as_str())" % (i, i),
            "(u32, &str)": "(t%d.0, t%d.1.as_str())" % (i, i),
            "Pair": "Pair { n: t%d.0, t: t%d.1.clone() }" % (i, i),
        }[ty]
    if t == "as":
        pre = "let t%d = val_as(%s); let r%d: Vec<&str> = t%d.iter().map(|s| s.as_str()).collect(); " % (i, a, i, i)
        return pre, {"Vec<String>": "t%d.clone()" % i, "Vec<&str>": "r%d.clone()" % i, "&[&str]": "&r%d" % i}[ty]
    if t == "v":
        # the Rust `Value` *is* the variant: convert the payload, not the `V` wrapper
        pre = "let t%d = val_to_value(val_v(%s)); " % (i, a)
        return pre, {
            "OwnedValue": "OwnedValue::try_from(val_to_value(val_v(%s))).unwrap()" % a,
            "Value<'_>": "val_to_value(val_v(%s))" % a,
            "&Value<'_>": "&t%d" % i,
        }[ty]
    raise KeyError(t)


def sig_arg_ty_srv(t, style, derived=False):
    """Type of a signal argument in the interface's signal declaration."""
    if style == 1 and t == "as" and derived:
        return "Vec<&str>"
    if style == 0:
        return {"u": "u32", "s": "&str", "us": "(u32, &str)", "as": "Vec<String>", "v": "Value<'_>"}[t]
    return {"u": "u32", "s": "String", "us": "Pair", "as": "&[&str]", "v": "OwnedValue"}[t]


def sig_arg_ty_prx(t, style):
    """Type of a signal argument in the hand-written proxy trait."""
    if style == 0:
        return {"u": "u32", "s": "&str", "us": "(u32, &str)", "as": "Vec<&str>", "v": "Value<'_>"}[t]
    return {"u": "u32", "s": "String", "us": "Pair", "as": "Vec<String>", "v": "OwnedValue"}[t]


def doc_lines(kind, indent="    "):
    return "".join("%s/// %s\n" % (indent, l) for l in DOCS[kind])


def rust_str(s):
    return '"' + s.replace("\\", "\\\\").replace('"', '\\"') + '"'


PROP_TY = {"u": "u32", "s": "String", "as": "Vec<String>"}
PROP_DEFAULT = {
    "u": lambda j: "Val::U(%d)" % (5 + j),
    "s": lambda j: 'Val::S("p%d".to_string())' % j,
    "as": lambda j: 'Val::As(vec!["x".to_string(), "y%d".to_string()])' % j,
}
PROP_FROM = {"u": "val_u", "s": "val_s", "as": "val_as"}


# ------------------------------------------------------------------------------------------
# emission
# ------------------------------------------------------------------------------------------

def ret_ty(m, proxy=False):
    t = OUT_TY[m["out"]]
    f = m["fall"]
    if f == "Plain":
        if proxy:
            return " -> zbus::Result<%s>" % t
        if m["out"] == "Unit":
            return "" if m["id"] % 2 == 0 else " -> ()"
        return " -> %s" % t
    if f == "Custom":
        return " -> Result<%s, BankError>" % t
    return " -> fdo::Result<%s>" % t


def out_expr(m):
    return {
        "Unit": "()",
        "U": "n",
        "Tup": "(n, t)",
        "Rec": "Rec { n, l: vec![t.clone()], t }",
        "VecS": "vec![t, n.to_string()]",
    }[m["out"]]


def emit_method(m):
    s = doc_lines(m["doc"])
    attrs = []
    if m["named"]:
        attrs.append('name = "%s"' % m["member"])
    if m["out"] == "Tup" and m["id"] % 2 == 0:
        attrs.append('out_args("n", "t")')
    if attrs:
        s += "    #[zbus(%s)]\n" % ", ".join(attrs)
    args = "".join(", a%d: %s" % (i, srv_arg_ty(t, m["style"])) for i, t in enumerate(m["shape"]))
    recv = "&mut self" if m["mut"] else "&self"
    s += "    %sfn %s(%s%s)%s {\n" % ("async " if m["async"] else "", m["rust"], recv, args, ret_ty(m))
    if m["async"]:
        s += "        yield_once().await;\n"
    vals = ", ".join("a%d.to_val()" % i for i in range(len(m["shape"])))
    s += "        let (n, t) = self.st.record(%d, vec![%s]);\n" % (m["id"], vals)
    s += "        let _ = (&n, &t);\n"
    f = m["fall"]
    if m["async"]:
        s += "        yield_once().await;\n"
    if f == "Plain":
        s += "        %s\n" % out_expr(m)
    elif f == "Ok":
        s += "        Ok(%s)\n" % out_expr(m)
    elif f == "Err":
        s += '        Err(fdo::Error::Failed(format!("m%d:{t}")))\n' % m["id"]
    elif f == "Dyn":
        s += '        if n & 1 == 1 {\n            return Err(fdo::Error::Failed(format!("m%d:{t}")));\n        }\n' % m["id"]
        s += "        Ok(%s)\n" % out_expr(m)
    elif f == "Custom":
        s += '        Err(BankError::Custom(format!("m%d:{t}")))\n' % m["id"]
    s += "    }\n\n"
    return s


def emit_prop(p):
    s = doc_lines(p["doc"])
    attr = "property" if p["emits"] else 'property(emits_changed_signal = "false")'
    nm = (', name = "%s"' % p["name"]) if p["named"] else ""
    ty = PROP_TY[p["ty"]]
    s += "    #[zbus(%s%s)]\n" % (attr, nm)
    if p["async_get"]:
        s += "    async fn %s(&self) -> %s {\n        yield_once().await;\n" % (p["rust"], ty)
    else:
        s += "    fn %s(&self) -> %s {\n" % (p["rust"], ty)
    s += "        %s(&self.st.prop(%s))\n    }\n\n" % (PROP_FROM[p["ty"]], rust_str(p["name"]))
    if p["writable"]:
        recv = "&mut self" if p["mut_set"] else "&self"
        s += "    #[zbus(property%s)]\n" % nm
        pid = 10000 + p["iface"] * 10 + p["idx"]
        if p["fallible_set"]:
            # the macro requires fdo::Result from `&mut self` setters and zbus::Result from `&self` ones
            res = "fdo" if p["mut_set"] else "zbus"
            s += "    async fn set_%s(%s, value: %s) -> %s::Result<()> {\n        yield_once().await;\n" % (p["rust"], recv, ty, res)
            s += "        self.st.set_prop_logged(%d, %s, value.to_val());\n        Ok(())\n    }\n\n" % (pid, rust_str(p["name"]))
        else:
            s += "    fn set_%s(%s, value: %s) {\n" % (p["rust"], recv, ty)
            s += "        self.st.set_prop_logged(%d, %s, value.to_val());\n    }\n\n" % (pid, rust_str(p["name"]))
    return s


def emit_signal(sg):
    s = doc_lines(sg["doc"])
    s += "    #[zbus(signal)]\n"
    args = "".join(", a%d: %s" % (i, sig_arg_ty_srv(t, sg["style"], sg["iface"] in DERIVED_PROXY)) for i, t in enumerate(sg["shape"]))
    s += "    async fn %s(emitter: &SignalEmitter<'_>%s) -> zbus::Result<()>;\n\n" % (sg["rust"], args)
    return s


def emit_proxy_trait(j, ms, ps, ss):
    s = '#[zbus::proxy(interface = "x.bank.I%d", default_service = "x.bank", default_path = "%s")]\n' % (j, LAYOUT[j][0])
    s += "pub trait Bank%d {\n" % j
    for m in ms:
        s += doc_lines(m["doc"])
        if m["named"]:
            s += '    #[zbus(name = "%s")]\n' % m["member"]
        args = "".join(", a%d: %s" % (i, prx_arg_ty(t, m["style"])) for i, t in enumerate(m["shape"]))
        s += "    fn %s(&self%s)%s;\n" % (m["rust"], args, ret_ty(m, proxy=True))
    for p in ps:
        attr = "property" if p["emits"] else 'property(emits_changed_signal = "false")'
        nm = (', name = "%s"' % p["name"]) if p["named"] else ""
        s += "    #[zbus(%s%s)]\n    fn %s(&self) -> zbus::Result<%s>;\n" % (attr, nm, p["rust"], PROP_TY[p["ty"]])
        if p["writable"]:
            s += "    #[zbus(property%s)]\n    fn set_%s(&self, value: %s) -> zbus::Result<()>;\n" % (nm, p["rust"], PROP_TY[p["ty"]])
    for sg in ss:
        args = "".join(", a%d: %s" % (i, sig_arg_ty_prx(t, sg["style"])) for i, t in enumerate(sg["shape"]))
        s += "    #[zbus(signal)]\n    fn %s(&self%s) -> zbus::Result<()>;\n" % (sg["rust"], args)
    s += "}\n\n"
    return s


def proxy_names(j):
    if j in DERIVED_PROXY:
        return "I%dProxy" % j, "I%dProxyBlocking" % j
    return "Bank%dProxy" % j, "Bank%dProxyBlocking" % j


def proxy_call_args(m, j):
    """(statements, argument list) for the proxy call of method m."""
    pre, out = "", []
    for i, t in enumerate(m["shape"]):
        if j in DERIVED_PROXY:
            ty = srv_arg_ty(t, m["style"])  # the derived proxy repeats the handler's types
        else:
            ty = prx_arg_ty(t, m["style"])
        p, e = call_expr(t, ty, i)
        pre += p
        out.append(e)
    return pre, ", ".join(out)


def sig_emit_args(sg):
    pre, out = "", []
    for i, t in enumerate(sg["shape"]):
        ty = sig_arg_ty_srv(t, sg["style"], sg["iface"] in DERIVED_PROXY)
        p, e = call_expr(t, ty, i)
        pre += p
        out.append(e)
    return pre, ", ".join(out)


PRELUDE = r'''
#![allow(clippy::all, unused_variables, unused_imports, unused_mut, non_snake_case)]

use std::{
    collections::BTreeMap,
    future::Future,
    pin::Pin,
    sync::{Arc, Mutex},
    task::{Context, Poll},
};

use futures_lite::StreamExt;
use serde::{Deserialize, Serialize};
use zbus::{
    fdo,
    object_server::SignalEmitter,
    proxy::CacheProperties,
    zvariant::{self, Array, ObjectPath, OwnedValue, StructureBuilder, Type, Value},
    DBusError,
};

// ---------------------------------------------------------------------------------------------
// Harness value model (independent of zvariant) and its wire codec
// ---------------------------------------------------------------------------------------------

/// Values the bank moves around. `As` is the only array type (array of strings); `I` and `O` only
/// occur as deliberately wrong argument types.
#[derive(Clone, Debug, PartialEq, Eq, Hash, PartialOrd, Ord)]
pub enum Val {
    U(u32),
    I(i32),
    S(String),
    O(String),
    St(Vec<Val>),
    As(Vec<String>),
    V(Box<Val>),
}

impl Val {
    pub fn sig(&self) -> String {
        match self {
            Val::U(_) => "u".into(),
            Val::I(_) => "i".into(),
            Val::S(_) => "s".into(),
            Val::O(_) => "o".into(),
            Val::St(f) => format!("({})", f.iter().map(|x| x.sig()).collect::<String>()),
            Val::As(_) => "as".into(),
            Val::V(_) => "v".into(),
        }
    }
    pub fn to_json(&self) -> serde_json::Value {
        use serde_json::json;
        match self {
            Val::U(x) => json!({"u": x}),
            Val::I(x) => json!({"i": x}),
            Val::S(x) => json!({"s": x}),
            Val::O(x) => json!({"o": x}),
            Val::St(f) => json!({"st": f.iter().map(|x| x.to_json()).collect::<Vec<_>>()}),
            Val::As(l) => json!({"as": l}),
            Val::V(b) => json!({"v": b.to_json()}),
        }
    }
    pub fn from_json(j: &serde_json::Value) -> Option<Val> {
        let o = j.as_object()?;
        let (k, v) = o.iter().next()?;
        Some(match k.as_str() {
            "u" => Val::U(v.as_u64()? as u32),
            "i" => Val::I(v.as_i64()? as i32),
            "s" => Val::S(v.as_str()?.to_string()),
            "o" => Val::O(v.as_str()?.to_string()),
            "st" => Val::St(v.as_array()?.iter().map(Val::from_json).collect::<Option<Vec<_>>>()?),
            "as" => Val::As(v.as_array()?.iter().map(|s| s.as_str().map(|s| s.to_string())).collect::<Option<Vec<_>>>()?),
            "v" => Val::V(Box::new(Val::from_json(v)?)),
            _ => return None,
        })
    }
}

pub fn vals_to_json(v: &[Val]) -> serde_json::Value {
    serde_json::Value::Array(v.iter().map(|x| x.to_json()).collect())
}
pub fn vals_from_json(j: &serde_json::Value) -> Option<Vec<Val>> {
    j.as_array()?.iter().map(Val::from_json).collect()
}

fn pad(out: &mut Vec<u8>, n: usize) {
    while out.len() % n != 0 {
        out.push(0);
    }
}

fn align_of_sig(c: u8) -> usize {
    match c {
        b'y' | b'g' | b'v' => 1,
        b'n' | b'q' => 2,
        b'x' | b't' | b'd' | b'(' | b'{' => 8,
        _ => 4,
    }
}

/// Reference marshaller (little endian). `out.len()` is the absolute offset (bodies and headers
/// start 8-aligned).
pub fn enc(v: &Val, out: &mut Vec<u8>) {
    match v {
        Val::U(x) => {
            pad(out, 4);
            out.extend_from_slice(&x.to_le_bytes());
        }
        Val::I(x) => {
            pad(out, 4);
            out.extend_from_slice(&x.to_le_bytes());
        }
        Val::S(s) | Val::O(s) => {
            pad(out, 4);
            out.extend_from_slice(&(s.len() as u32).to_le_bytes());
            out.extend_from_slice(s.as_bytes());
            out.push(0);
        }
        Val::St(f) => {
            pad(out, 8);
            for x in f {
                enc(x, out);
            }
        }
        Val::As(l) => {
            pad(out, 4);
            let len_pos = out.len();
            out.extend_from_slice(&[0; 4]);
            pad(out, 4);
            let start = out.len();
            for s in l {
                enc(&Val::S(s.clone()), out);
            }
            let n = (out.len() - start) as u32;
            out[len_pos..len_pos + 4].copy_from_slice(&n.to_le_bytes());
        }
        Val::V(b) => {
            let s = b.sig();
            out.push(s.len() as u8);
            out.extend_from_slice(s.as_bytes());
            out.push(0);
            enc(b, out);
        }
    }
}

/// Split a signature into its top-level complete types.
pub fn split_sig(sig: &str) -> Result<Vec<String>, String> {
    let b = sig.as_bytes();
    let mut out = vec![];
    let mut pos = 0;
    while pos < b.len() {
        let end = one_type(b, pos)?;
        out.push(sig[pos..end].to_string());
        pos = end;
    }
    Ok(out)
}

fn one_type(b: &[u8], pos: usize) -> Result<usize, String> {
    match b.get(pos) {
        None => Err("truncated signature".into()),
        Some(b'a') => {
            if b.get(pos + 1) == Some(&b'{') {
                let mut p = pos + 2;
                while b.get(p) != Some(&b'}') {
                    p = one_type(b, p)?;
                }
                Ok(p + 1)
            } else {
                one_type(b, pos + 1)
            }
        }
        Some(b'(') => {
            let mut p = pos + 1;
            while b.get(p) != Some(&b')') {
                p = one_type(b, p)?;
            }
            Ok(p + 1)
        }
        Some(c) if b"ybnqiuxtdsogvh".contains(c) => Ok(pos + 1),
        Some(c) => Err(format!("bad signature char {:?}", *c as char)),
    }
}

struct Rd<'a> {
    b: &'a [u8],
    pos: usize,
    /// Offset of b[0] in the message (for alignment).
    base: usize,
}

impl Rd<'_> {
    fn align(&mut self, n: usize) -> Result<(), String> {
        while (self.base + self.pos) % n != 0 {
            if self.b.get(self.pos) != Some(&0) {
                return Err(format!("non-zero or missing padding at {}", self.pos));
            }
            self.pos += 1;
        }
        Ok(())
    }
    fn u32(&mut self) -> Result<u32, String> {
        self.align(4)?;
        let s = self.b.get(self.pos..self.pos + 4).ok_or("truncated u32")?;
        self.pos += 4;
        Ok(u32::from_le_bytes(s.try_into().unwrap()))
    }
    fn string(&mut self) -> Result<String, String> {
        let n = self.u32()? as usize;
        let s = self.b.get(self.pos..self.pos + n).ok_or("truncated string")?;
        if self.b.get(self.pos + n) != Some(&0) {
            return Err("string not NUL terminated".into());
        }
        self.pos += n + 1;
        String::from_utf8(s.to_vec()).map_err(|_| "string not UTF-8".to_string())
    }
    fn sig(&mut self) -> Result<String, String> {
        let n = *self.b.get(self.pos).ok_or("truncated signature")? as usize;
        self.pos += 1;
        let s = self.b.get(self.pos..self.pos + n).ok_or("truncated signature")?;
        if self.b.get(self.pos + n) != Some(&0) {
            return Err("signature not NUL terminated".into());
        }
        self.pos += n + 1;
        String::from_utf8(s.to_vec()).map_err(|_| "signature not UTF-8".to_string())
    }
    fn val(&mut self, sig: &str) -> Result<Val, String> {
        let b = sig.as_bytes();
        match b[0] {
            b'u' => Ok(Val::U(self.u32()?)),
            b'i' => Ok(Val::I(self.u32()? as i32)),
            b's' => Ok(Val::S(self.string()?)),
            b'o' => Ok(Val::O(self.string()?)),
            b'(' => {
                self.align(8)?;
                let inner = split_sig(&sig[1..sig.len() - 1])?;
                let mut f = vec![];
                for t in inner {
                    f.push(self.val(&t)?);
                }
                Ok(Val::St(f))
            }
            b'a' if sig == "as" => {
                let n = self.u32()? as usize;
                self.align(4)?;
                let end = self.pos + n;
                let mut l = vec![];
                while self.pos < end {
                    l.push(self.string()?);
                }
                if self.pos != end {
                    return Err("array length does not end on an element boundary".into());
                }
                Ok(Val::As(l))
            }
            b'v' => {
                let s = self.sig()?;
                let parts = split_sig(&s)?;
                if parts.len() != 1 {
                    return Err(format!("variant signature {s:?} is not one complete type"));
                }
                Ok(Val::V(Box::new(self.val(&s)?)))
            }
            _ => Err(format!("reference decoder: unsupported type {sig:?}")),
        }
    }
}

/// Strict reference decoding of a message body under `sig`; all bytes must be consumed.
pub fn dec_body(sig: &str, body: &[u8]) -> Result<Vec<Val>, String> {
    let mut r = Rd { b: body, pos: 0, base: 0 };
    let mut out = vec![];
    for t in split_sig(sig)? {
        out.push(r.val(&t)?);
    }
    if r.pos != body.len() {
        return Err(format!("{} trailing body bytes", body.len() - r.pos));
    }
    Ok(out)
}

pub fn enc_body(args: &[Val]) -> Vec<u8> {
    let mut out = vec![];
    for a in args {
        enc(a, &mut out);
    }
    out
}

pub const T_CALL: u8 = 1;
pub const T_RETURN: u8 = 2;
pub const T_ERROR: u8 = 3;
pub const T_SIGNAL: u8 = 4;
pub const F_NO_REPLY: u8 = 1;

/// A method call built by the reference marshaller.
#[derive(Clone, Debug)]
pub struct CallSpec {
    pub serial: u32,
    pub path: Option<String>,
    pub iface: Option<String>,
    pub member: Option<String>,
    pub flags: u8,
    /// Body signature written into the header (normally the concatenation of the args' types).
    pub sig: String,
    pub args: Vec<Val>,
}

impl CallSpec {
    pub fn new(serial: u32, path: &str, iface: &str, member: &str, args: Vec<Val>) -> Self {
        let sig = args.iter().map(|a| a.sig()).collect();
        Self {
            serial,
            path: Some(path.into()),
            iface: Some(iface.into()),
            member: Some(member.into()),
            flags: 0,
            sig,
            args,
        }
    }
    pub fn to_bytes(&self) -> Vec<u8> {
        let body = enc_body(&self.args);
        let mut out = vec![b'l', T_CALL, self.flags, 1];
        out.extend_from_slice(&(body.len() as u32).to_le_bytes());
        out.extend_from_slice(&self.serial.to_le_bytes());
        let len_pos = out.len();
        out.extend_from_slice(&[0; 4]);
        let start = out.len();
        let mut field = |out: &mut Vec<u8>, code: u8, ty: u8, v: &str| {
            pad(out, 8);
            out.push(code);
            out.extend_from_slice(&[1, ty, 0]);
            if ty == b'g' {
                out.push(v.len() as u8);
            } else {
                pad(out, 4);
                out.extend_from_slice(&(v.len() as u32).to_le_bytes());
            }
            out.extend_from_slice(v.as_bytes());
            out.push(0);
        };
        if let Some(p) = &self.path {
            field(&mut out, 1, b'o', p);
        }
        if let Some(i) = &self.iface {
            field(&mut out, 2, b's', i);
        }
        if let Some(m) = &self.member {
            field(&mut out, 3, b's', m);
        }
        if !self.sig.is_empty() {
            field(&mut out, 8, b'g', &self.sig);
        }
        let n = (out.len() - start) as u32;
        out[len_pos..len_pos + 4].copy_from_slice(&n.to_le_bytes());
        pad(&mut out, 8);
        out.extend_from_slice(&body);
        out
    }
    pub fn to_json(&self) -> serde_json::Value {
        serde_json::json!({
            "serial": self.serial, "path": self.path, "iface": self.iface, "member": self.member,
            "flags": self.flags, "sig": self.sig, "args": vals_to_json(&self.args),
        })
    }
    pub fn from_json(j: &serde_json::Value) -> Option<Self> {
        let s = |k: &str| j[k].as_str().map(|s| s.to_string());
        Some(Self {
            serial: j["serial"].as_u64()? as u32,
            path: s("path"),
            iface: s("iface"),
            member: s("member"),
            flags: j["flags"].as_u64()? as u8,
            sig: s("sig")?,
            args: vals_from_json(&j["args"])?,
        })
    }
}

/// A message read off the wire by the reference parser.
#[derive(Clone, Debug, Default)]
pub struct WireMsg {
    pub mtype: u8,
    pub flags: u8,
    pub serial: u32,
    pub reply_serial: Option<u32>,
    pub path: Option<String>,
    pub iface: Option<String>,
    pub member: Option<String>,
    pub error_name: Option<String>,
    pub sig: String,
    pub body: Vec<u8>,
}

pub fn parse_wire(bytes: &[u8]) -> Result<WireMsg, String> {
    if bytes.len() < 16 || bytes[0] != b'l' {
        return Err("not a little-endian message".into());
    }
    let mut m = WireMsg {
        mtype: bytes[1],
        flags: bytes[2],
        ..Default::default()
    };
    let mut r = Rd { b: bytes, pos: 4, base: 0 };
    let body_len = r.u32()? as usize;
    m.serial = r.u32()?;
    let fields_len = r.u32()? as usize;
    let end = r.pos + fields_len;
    while r.pos < end {
        r.align(8)?;
        let code = *r.b.get(r.pos).ok_or("truncated field")?;
        r.pos += 1;
        let sig = r.sig()?;
        match (code, sig.as_str()) {
            (1, "o") => m.path = Some(r.string()?),
            (2, "s") => m.iface = Some(r.string()?),
            (3, "s") => m.member = Some(r.string()?),
            (4, "s") => m.error_name = Some(r.string()?),
            (5, "u") => m.reply_serial = Some(r.u32()?),
            (6, "s") | (7, "s") => {
                r.string()?;
            }
            (8, "g") => m.sig = r.sig()?,
            (9, "u") => {
                r.u32()?;
            }
            (c, s) => return Err(format!("unexpected header field {c} of type {s:?}")),
        }
    }
    r.align(8)?;
    m.body = bytes.get(r.pos..r.pos + body_len).ok_or("truncated body")?.to_vec();
    if r.pos + body_len != bytes.len() {
        return Err("message length mismatch".into());
    }
    Ok(m)
}

/// All complete messages in a byte stream (framing by the fixed header).
pub fn parse_stream(bytes: &[u8]) -> Result<Vec<WireMsg>, String> {
    let (ranges, rest) = crate::world::split_messages(bytes);
    if rest != 0 {
        return Err(format!("{rest} trailing bytes that do not form a message"));
    }
    ranges.into_iter().map(|r| parse_wire(&bytes[r])).collect()
}

// ---------------------------------------------------------------------------------------------
// Conversions between the value model and the Rust types the bank uses
// ---------------------------------------------------------------------------------------------

pub fn value_to_val(v: &Value<'_>) -> Val {
    match v {
        Value::U32(x) => Val::U(*x),
        Value::I32(x) => Val::I(*x),
        Value::Str(s) => Val::S(s.as_str().to_string()),
        Value::ObjectPath(p) => Val::O(p.as_str().to_string()),
        Value::Array(a) if *a.element_signature() == "s" => Val::As(
            a.inner()
                .iter()
                .map(|x| match x {
                    Value::Str(s) => s.as_str().to_string(),
                    o => format!("?{o:?}"),
                })
                .collect(),
        ),
        Value::Structure(s) => Val::St(s.fields().iter().map(value_to_val).collect()),
        Value::Value(b) => Val::V(Box::new(value_to_val(b))),
        o => Val::S(format!("?{o:?}")),
    }
}

pub fn val_to_value(v: &Val) -> Value<'static> {
    match v {
        Val::U(x) => Value::U32(*x),
        Val::I(x) => Value::I32(*x),
        Val::S(s) => Value::Str(s.clone().into()),
        Val::O(p) => Value::ObjectPath(ObjectPath::try_from(p.clone()).expect("object path")),
        Val::As(l) => Value::Array(Array::from(l.clone())),
        Val::St(f) => {
            let mut b = StructureBuilder::new();
            for x in f {
                b = b.append_field(val_to_value(x));
            }
            Value::Structure(b.build().expect("non-empty structure"))
        }
        Val::V(b) => Value::Value(Box::new(val_to_value(b))),
    }
}

pub fn val_u(v: &Val) -> u32 {
    match v {
        Val::U(x) => *x,
        o => panic!("bank: expected u, got {o:?}"),
    }
}
pub fn val_s(v: &Val) -> String {
    match v {
        Val::S(x) => x.clone(),
        o => panic!("bank: expected s, got {o:?}"),
    }
}
pub fn val_as(v: &Val) -> Vec<String> {
    match v {
        Val::As(x) => x.clone(),
        o => panic!("bank: expected as, got {o:?}"),
    }
}
pub fn val_us(v: &Val) -> (u32, String) {
    match v {
        Val::St(f) if f.len() == 2 => (val_u(&f[0]), val_s(&f[1])),
        o => panic!("bank: expected (us), got {o:?}"),
    }
}
pub fn val_v(v: &Val) -> &Val {
    match v {
        Val::V(b) => b,
        o => panic!("bank: expected v, got {o:?}"),
    }
}

pub trait ToVal {
    fn to_val(&self) -> Val;
}
impl ToVal for u32 {
    fn to_val(&self) -> Val {
        Val::U(*self)
    }
}
impl ToVal for String {
    fn to_val(&self) -> Val {
        Val::S(self.clone())
    }
}
impl ToVal for str {
    fn to_val(&self) -> Val {
        Val::S(self.to_string())
    }
}
impl<T: ToVal + ?Sized> ToVal for &T {
    fn to_val(&self) -> Val {
        (**self).to_val()
    }
}
impl ToVal for (u32, String) {
    fn to_val(&self) -> Val {
        Val::St(vec![Val::U(self.0), Val::S(self.1.clone())])
    }
}
impl ToVal for (u32, &str) {
    fn to_val(&self) -> Val {
        Val::St(vec![Val::U(self.0), Val::S(self.1.to_string())])
    }
}
impl ToVal for Pair {
    fn to_val(&self) -> Val {
        Val::St(vec![Val::U(self.n), Val::S(self.t.clone())])
    }
}
impl ToVal for Vec<String> {
    fn to_val(&self) -> Val {
        Val::As(self.clone())
    }
}
impl ToVal for [&str] {
    fn to_val(&self) -> Val {
        Val::As(self.iter().map(|s| s.to_string()).collect())
    }
}
impl ToVal for [String] {
    fn to_val(&self) -> Val {
        Val::As(self.to_vec())
    }
}
impl ToVal for Vec<&str> {
    fn to_val(&self) -> Val {
        Val::As(self.iter().map(|s| s.to_string()).collect())
    }
}
impl ToVal for Value<'_> {
    fn to_val(&self) -> Val {
        Val::V(Box::new(value_to_val(self)))
    }
}
impl ToVal for OwnedValue {
    fn to_val(&self) -> Val {
        Val::V(Box::new(value_to_val(self)))
    }
}

/// Reply values as the list of top-level body arguments (a struct result is flattened: on the
/// wire a single struct and its fields are the same bytes).
pub trait OutVals {
    fn out_vals(&self) -> Vec<Val>;
}
impl OutVals for () {
    fn out_vals(&self) -> Vec<Val> {
        vec![]
    }
}
impl OutVals for u32 {
    fn out_vals(&self) -> Vec<Val> {
        vec![Val::U(*self)]
    }
}
impl OutVals for (u32, String) {
    fn out_vals(&self) -> Vec<Val> {
        vec![Val::U(self.0), Val::S(self.1.clone())]
    }
}
impl OutVals for Rec {
    fn out_vals(&self) -> Vec<Val> {
        vec![Val::U(self.n), Val::S(self.t.clone()), Val::As(self.l.clone())]
    }
}
impl OutVals for Vec<String> {
    fn out_vals(&self) -> Vec<Val> {
        vec![Val::As(self.clone())]
    }
}

/// (D-Bus error name, message) of a failed proxy call.
pub trait ErrInfo {
    fn err_info(&self) -> (String, String);
}
impl ErrInfo for zbus::Error {
    fn err_info(&self) -> (String, String) {
        match self {
            zbus::Error::MethodError(n, d, _) => (n.to_string(), d.clone().unwrap_or_default()),
            zbus::Error::FDO(e) => e.err_info(),
            o => ("<local>".into(), o.to_string()),
        }
    }
}
impl ErrInfo for fdo::Error {
    fn err_info(&self) -> (String, String) {
        match self {
            fdo::Error::ZBus(e) => e.err_info(),
            o => (o.name().to_string(), o.description().unwrap_or("").to_string()),
        }
    }
}
impl ErrInfo for BankError {
    fn err_info(&self) -> (String, String) {
        match self {
            BankError::ZBus(e) => e.err_info(),
            o => (o.name().to_string(), o.description().unwrap_or("").to_string()),
        }
    }
}

pub type CallResult = Result<Vec<Val>, (String, String)>;

fn conv<T: OutVals, E: ErrInfo>(r: Result<T, E>) -> CallResult {
    match r {
        Ok(v) => Ok(v.out_vals()),
        Err(e) => Err(e.err_info()),
    }
}

// ---------------------------------------------------------------------------------------------
// Types used in the generated definitions
// ---------------------------------------------------------------------------------------------

/// Struct twin of the `(us)` tuple argument.
#[derive(Clone, Debug, PartialEq, Serialize, Deserialize, Type)]
pub struct Pair {
    pub n: u32,
    pub t: String,
}

/// Derived struct result, signature `(usas)`.
#[derive(Clone, Debug, PartialEq, Serialize, Deserialize, Type)]
pub struct Rec {
    pub n: u32,
    pub t: String,
    pub l: Vec<String>,
}

#[derive(Debug, DBusError)]
#[zbus(prefix = "x.bank.Error")]
pub enum BankError {
    #[zbus(error)]
    ZBus(zbus::Error),
    Custom(String),
}

pub struct YieldOnce(bool);
impl Future for YieldOnce {
    type Output = ();
    fn poll(mut self: Pin<&mut Self>, cx: &mut Context<'_>) -> Poll<()> {
        if self.0 {
            Poll::Ready(())
        } else {
            self.0 = true;
            cx.waker().wake_by_ref();
            Poll::Pending
        }
    }
}
/// Suspend the handler once (a real `Pending`, no timer).
pub fn yield_once() -> YieldOnce {
    YieldOnce(false)
}

/// One handler invocation.
#[derive(Clone, Debug, PartialEq, Eq)]
pub struct Call {
    /// Method id, or 10000 + 10 * iface + property index for property setters.
    pub id: u16,
    /// Instance tag (which registration of the interface ran).
    pub inst: u8,
    pub args: Vec<Val>,
}

pub type Log = Arc<Mutex<Vec<Call>>>;

/// Server-side state of one registered interface instance; the harness keeps a clone.
pub struct State {
    pub inst: u8,
    pub log: Log,
    pub props: Mutex<BTreeMap<&'static str, Val>>,
}

impl State {
    pub fn new(inst: u8, log: &Log) -> Arc<State> {
        Arc::new(State {
            inst,
            log: log.clone(),
            props: Mutex::new(BTreeMap::new()),
        })
    }
    /// Log the invocation and return the digest of the decoded arguments.
    pub fn record(&self, id: u16, args: Vec<Val>) -> (u32, String) {
        let d = digest(id, &args);
        self.log.lock().unwrap().push(Call { id, inst: self.inst, args });
        d
    }
    pub fn prop(&self, name: &str) -> Val {
        self.props.lock().unwrap().get(name).cloned().expect("bank: unknown property")
    }
    pub fn set_prop(&self, name: &'static str, v: Val) {
        self.props.lock().unwrap().insert(name, v);
    }
    pub fn set_prop_logged(&self, id: u16, name: &'static str, v: Val) {
        self.log.lock().unwrap().push(Call { id, inst: self.inst, args: vec![v.clone()] });
        self.set_prop(name, v);
    }
}

fn mix(v: &Val, n: &mut u32, t: &mut String) {
    match v {
        Val::U(x) => {
            *n = n.wrapping_mul(31).wrapping_add(*x);
            t.push_str(&format!("u{x};"));
        }
        Val::I(x) => {
            *n = n.wrapping_mul(31).wrapping_add(*x as u32);
            t.push_str(&format!("i{x};"));
        }
        Val::S(s) | Val::O(s) => {
            *n = n.wrapping_mul(31).wrapping_add(s.chars().count() as u32);
            t.push('s');
            t.push_str(s);
            t.push(';');
        }
        Val::St(f) => {
            t.push('(');
            for x in f {
                mix(x, n, t);
            }
            t.push(')');
            *n = n.wrapping_mul(31).wrapping_add(f.len() as u32);
        }
        Val::As(l) => {
            t.push('[');
            for s in l {
                t.push_str(s);
                t.push(',');
            }
            t.push(']');
            *n = n.wrapping_mul(31).wrapping_add(l.len() as u32);
        }
        Val::V(b) => {
            t.push('<');
            mix(b, n, t);
            t.push('>');
            *n = n.wrapping_mul(31).wrapping_add(7);
        }
    }
}

/// Order-sensitive digest of an argument list, seeded with the method id.
pub fn digest(id: u16, args: &[Val]) -> (u32, String) {
    let mut n = id as u32;
    let mut t = String::new();
    for a in args {
        mix(a, &mut n, &mut t);
    }
    (n, t)
}

#[derive(Clone, Copy, Debug, PartialEq, Eq, Hash, PartialOrd, Ord)]
pub enum Out {
    Unit,
    U,
    Tup,
    Rec,
    VecS,
}

#[derive(Clone, Copy, Debug, PartialEq, Eq, Hash, PartialOrd, Ord)]
pub enum Fall {
    Plain,
    Ok,
    Err,
    Dyn,
    Custom,
}

#[derive(Debug)]
pub struct MethodDesc {
    pub id: u16,
    pub iface: usize,
    pub rust: &'static str,
    pub member: &'static str,
    /// D-Bus signature of every input argument.
    pub ins: &'static [&'static str],
    pub out: Out,
    /// Declared output signature (a struct result is `(usas)`; on the wire also `usas`).
    pub out_sig: &'static str,
    pub is_async: bool,
    pub is_mut: bool,
    pub fall: Fall,
    pub style: u8,
    pub doc: u8,
}

#[derive(Debug)]
pub struct PropDesc {
    pub iface: usize,
    pub idx: usize,
    pub name: &'static str,
    pub sig: &'static str,
    pub writable: bool,
    pub emits: bool,
    pub doc: u8,
}

#[derive(Debug)]
pub struct SignalDesc {
    pub iface: usize,
    pub idx: usize,
    pub member: &'static str,
    pub ins: &'static [&'static str],
    pub doc: u8,
}

#[derive(Debug)]
pub struct IfaceDesc {
    pub idx: usize,
    pub name: &'static str,
    pub spawn: bool,
    pub derived_proxy: bool,
    /// Paths of the standard layout this interface is registered at.
    pub paths: &'static [&'static str],
}

/// What the handler must produce for these (decoded) arguments.
#[derive(Clone, Debug, PartialEq)]
pub enum Expect {
    /// Top-level reply arguments (struct result flattened).
    Reply(Vec<Val>),
    Error { name: &'static str, msg: String },
}

pub fn expected(m: &MethodDesc, args: &[Val]) -> Expect {
    let (n, t) = digest(m.id, args);
    let failed = Expect::Error {
        name: "org.freedesktop.DBus.Error.Failed",
        msg: format!("m{}:{t}", m.id),
    };
    match m.fall {
        Fall::Err => return failed,
        Fall::Dyn if n & 1 == 1 => return failed,
        Fall::Custom => {
            return Expect::Error {
                name: "x.bank.Error.Custom",
                msg: format!("m{}:{t}", m.id),
            }
        }
        _ => {}
    }
    Expect::Reply(match m.out {
        Out::Unit => vec![],
        Out::U => vec![Val::U(n)],
        Out::Tup => vec![Val::U(n), Val::S(t)],
        Out::Rec => vec![Val::U(n), Val::S(t.clone()), Val::As(vec![t])],
        Out::VecS => vec![Val::As(vec![t, n.to_string()])],
    })
}

/// Small leaf domain of a type (by D-Bus signature), simplest first.
pub fn domain(sig: &str) -> Vec<Val> {
    let s = |x: &str| x.to_string();
    match sig {
        "u" => vec![Val::U(0), Val::U(1), Val::U(u32::MAX)],
        "s" => vec![Val::S(s("")), Val::S(s("a")), Val::S(s("é/€"))],
        "(us)" => {
            let mut v = vec![];
            for u in domain("u") {
                for t in domain("s") {
                    v.push(Val::St(vec![u.clone(), t]));
                }
            }
            v
        }
        "as" => {
            let el = [s(""), s("a"), s("é/€")];
            let mut v = vec![Val::As(vec![])];
            for a in &el {
                v.push(Val::As(vec![a.clone()]));
            }
            for a in &el {
                for b in &el {
                    v.push(Val::As(vec![a.clone(), b.clone()]));
                }
            }
            v
        }
        "v" => vec![
            Val::V(Box::new(Val::U(7))),
            Val::V(Box::new(Val::S(s("é/€")))),
            Val::V(Box::new(Val::As(vec![s("x"), s("")]))),
            Val::V(Box::new(Val::St(vec![Val::U(1), Val::S(s("b"))]))),
            Val::V(Box::new(Val::V(Box::new(Val::U(3))))),
        ],
        o => panic!("bank: no domain for {o:?}"),
    }
}

/// Paths of the standard layout (instance tag = index).
pub const ALL_PATHS: &[&str] = &["/bank", "/bank/x", "/other/deep/leaf"];

pub fn inst_of_path(path: &str) -> u8 {
    ALL_PATHS.iter().position(|p| *p == path).map(|i| i as u8).unwrap_or(200)
}

/// Everything the harness holds about a registered bank.
pub struct Registered {
    pub log: Log,
    /// (path, iface) -> state
    pub states: BTreeMap<(String, usize), Arc<State>>,
}

impl Registered {
    pub fn state(&self, path: &str, iface: usize) -> &Arc<State> {
        self.states.get(&(path.to_string(), iface)).expect("bank: not registered")
    }
    pub fn take_log(&self) -> Vec<Call> {
        std::mem::take(&mut *self.log.lock().unwrap())
    }
}

/// Register the standard layout on `server`.
pub async fn register_layout(server: &zbus::Connection) -> zbus::Result<Registered> {
    let mut reg = Registered { log: Log::default(), states: BTreeMap::new() };
    for d in IFACES {
        for p in d.paths {
            register_one(server, &mut reg, d.idx, p).await?;
        }
    }
    Ok(reg)
}

/// Register interface `iface` at `path` (instance tag from the layout table, 200 if foreign).
pub async fn register_one(
    server: &zbus::Connection,
    reg: &mut Registered,
    iface: usize,
    path: &str,
) -> zbus::Result<bool> {
    let st = new_state(reg, iface, path);
    register_iface(server, iface, path, st).await
}

/// Fresh state (default property values) for interface `iface` at `path`, recorded in `reg`.
pub fn new_state(reg: &mut Registered, iface: usize, path: &str) -> Arc<State> {
    let st = State::new(inst_of_path(path), &reg.log);
    for p in PROPS.iter().filter(|p| p.iface == iface) {
        st.set_prop(p.name, prop_default(p));
    }
    reg.states.insert((path.to_string(), iface), st.clone());
    st
}

pub type SigStream = Pin<Box<dyn futures_core::Stream<Item = Result<Vec<Val>, String>> + Send>>;
pub type SigIter = Box<dyn Iterator<Item = Result<Vec<Val>, String>> + Send>;
'''


def gen():
    ms = enumerate_methods()
    ps = enumerate_props()
    ss = enumerate_signals()
    o = []
    o.append("//! GENERATED by /verif/engines/gen/ifaces.py -- do not edit; regenerate with\n")
    o.append("//! `python3 /verif/engines/gen/ifaces.py`. %d methods, %d properties, %d signals, %d interfaces.\n" % (len(ms), len(ps), len(ss), N_IFACES))
    o.append(PRELUDE)

    # tables
    o.append("\npub static IFACES: &[IfaceDesc] = &[\n")
    for j in range(N_IFACES):
        o.append('    IfaceDesc { idx: %d, name: "x.bank.I%d", spawn: %s, derived_proxy: %s, paths: &[%s] },\n' % (
            j, j, "false" if j in SPAWN_FALSE else "true", "true" if j in DERIVED_PROXY else "false",
            ", ".join(rust_str(p) for p in LAYOUT[j])))
    o.append("];\n\npub static METHODS: &[MethodDesc] = &[\n")
    for m in ms:
        o.append('    MethodDesc { id: %d, iface: %d, rust: "%s", member: "%s", ins: &[%s], out: Out::%s, out_sig: "%s", is_async: %s, is_mut: %s, fall: Fall::%s, style: %d, doc: %d },\n' % (
            m["id"], m["iface"], m["rust"], m["member"], ", ".join('"%s"' % SIG[t] for t in m["shape"]), m["out"], OUT_SIG[m["out"]],
            str(m["async"]).lower(), str(m["mut"]).lower(), m["fall"], m["style"], m["doc"]))
    o.append("];\n\npub static PROPS: &[PropDesc] = &[\n")
    for p in ps:
        o.append('    PropDesc { iface: %d, idx: %d, name: "%s", sig: "%s", writable: %s, emits: %s, doc: %d },\n' % (
            p["iface"], p["idx"], p["name"], p["ty"], str(p["writable"]).lower(), str(p["emits"]).lower(), p["doc"]))
    o.append("];\n\npub static SIGNALS: &[SignalDesc] = &[\n")
    for s in ss:
        o.append('    SignalDesc { iface: %d, idx: %d, member: "%s", ins: &[%s], doc: %d },\n' % (
            s["iface"], s["idx"], s["member"], ", ".join('"%s"' % SIG[t] for t in s["shape"]), s["doc"]))
    o.append("];\n\npub static DOC_TEXTS: &[&[&str]] = &[\n")
    for k in sorted(DOCS):
        o.append("    &[%s],\n" % ", ".join(rust_str(l) for l in DOCS[k]))
    o.append("];\n\n")

    o.append("pub fn prop_default(p: &PropDesc) -> Val {\n    match (p.iface, p.idx) {\n")
    for p in ps:
        o.append("        (%d, %d) => %s,\n" % (p["iface"], p["idx"], PROP_DEFAULT[p["ty"]](p["iface"])))
    o.append('        _ => unreachable!(),\n    }\n}\n\n')

    # interfaces + proxies
    for j in range(N_IFACES):
        jm = [m for m in ms if m["iface"] == j]
        jp = [p for p in ps if p["iface"] == j]
        js = [s for s in ss if s["iface"] == j]
        o.append("pub struct I%d {\n    pub st: Arc<State>,\n}\n\n" % j)
        attrs = ['name = "x.bank.I%d"' % j]
        if j in SPAWN_FALSE:
            attrs.append("spawn = false")
        if j in DERIVED_PROXY:
            attrs.append('proxy(default_service = "x.bank", default_path = "%s")' % LAYOUT[j][0])
        o.append("#[zbus::interface(%s)]\nimpl I%d {\n" % (", ".join(attrs), j))
        # interleave members so that properties/signals sit between methods
        for m in jm:
            o.append(emit_method(m))
        for p in jp:
            o.append(emit_prop(p))
        for s in js:
            o.append(emit_signal(s))
        o.append("}\n\n")
        if j not in DERIVED_PROXY:
            o.append(emit_proxy_trait(j, jm, jp, js))

    # register glue
    o.append("pub async fn register_iface(server: &zbus::Connection, iface: usize, path: &str, st: Arc<State>) -> zbus::Result<bool> {\n    match iface {\n")
    for j in range(N_IFACES):
        o.append("        %d => server.object_server().at(path, I%d { st }).await,\n" % (j, j))
    o.append('        _ => panic!("bank: no such interface"),\n    }\n}\n\n')

    o.append("pub async fn unregister_iface(server: &zbus::Connection, iface: usize, path: &str) -> zbus::Result<bool> {\n    match iface {\n")
    for j in range(N_IFACES):
        o.append("        %d => server.object_server().remove::<I%d, _>(path).await,\n" % (j, j))
    o.append('        _ => panic!("bank: no such interface"),\n    }\n}\n\n')

    o.append("/// Put the standard layout on a connection builder (`serve_at`), so that the object server is\n/// running before the first message is read.\n")
    o.append("pub fn serve_layout<'a>(mut b: zbus::connection::Builder<'a>) -> zbus::Result<(zbus::connection::Builder<'a>, Registered)> {\n")
    o.append("    let mut reg = Registered { log: Log::default(), states: BTreeMap::new() };\n")
    for j in range(N_IFACES):
        for p in LAYOUT[j]:
            o.append("    let st = new_state(&mut reg, %d, %s);\n    b = b.serve_at(%s, I%d { st })?;\n" % (j, rust_str(p), rust_str(p), j))
    o.append("    Ok((b, reg))\n}\n\n")

    # proxies: async + blocking enums
    for kind in ("async", "blocking"):
        blocking = kind == "blocking"
        en = "AnyBlocking" if blocking else "AnyProxy"
        aw = "" if blocking else ".await"
        asy = "" if blocking else "async "
        conn_ty = "zbus::blocking::Connection" if blocking else "zbus::Connection"
        o.append("pub enum %s {\n" % en)
        for j in range(N_IFACES):
            o.append("    I%d(%s<'static>),\n" % (j, proxy_names(j)[1 if blocking else 0]))
        o.append("}\n\nimpl %s {\n" % en)
        o.append("    pub %sfn build(conn: &%s, path: &str, iface: usize, cache: bool) -> zbus::Result<Self> {\n" % (asy, conn_ty))
        o.append("        let cache = if cache { CacheProperties::Lazily } else { CacheProperties::No };\n        let path = path.to_string();\n        Ok(match iface {\n")
        for j in range(N_IFACES):
            pn = proxy_names(j)[1 if blocking else 0]
            o.append("            %d => Self::I%d(%s::builder(conn).path(path)?.cache_properties(cache).build()%s?),\n" % (j, j, pn, aw))
        o.append('            _ => panic!("bank: no such interface"),\n        })\n    }\n\n')

        # call
        o.append("    pub %sfn call(&self, id: u16, args: &[Val]) -> CallResult {\n        match (self, id) {\n" % asy)
        for m in ms:
            pre, a = proxy_call_args(m, m["iface"])
            o.append("            (Self::I%d(p), %d) => { %sconv(p.%s(%s)%s) }\n" % (m["iface"], m["id"], pre, m["rust"], a, aw))
        o.append('            _ => panic!("bank: method does not belong to this proxy"),\n        }\n    }\n\n')

        # property get
        o.append("    pub %sfn get(&self, idx: usize) -> Result<Val, (String, String)> {\n        match (self, idx) {\n" % asy)
        for p in ps:
            o.append("            (Self::I%d(p), %d) => p.%s()%s.map(|v| v.to_val()).map_err(|e| e.err_info()),\n" % (p["iface"], p["idx"], p["rust"], aw))
        o.append('            _ => panic!("bank: no such property"),\n        }\n    }\n\n')
        # property set
        o.append("    pub %sfn set(&self, idx: usize, v: &Val) -> Result<(), (String, String)> {\n        let args = std::slice::from_ref(v);\n        match (self, idx) {\n" % asy)
        for p in ps:
            if p["writable"]:
                pre, e = call_expr(p["ty"], PROP_TY[p["ty"]], 0)
                o.append("            (Self::I%d(p), %d) => { %sp.set_%s(%s)%s.map_err(|e| e.err_info()) }\n" % (
                    p["iface"], p["idx"], pre, p["rust"], e, aw))
        o.append('            _ => panic!("bank: no such writable property"),\n        }\n    }\n\n')
        # cached property (async only has cached_ getters for emitting props; both kinds generate them)
        o.append("    pub fn cached(&self, idx: usize) -> Result<Option<Val>, String> {\n        match (self, idx) {\n")
        for p in ps:
            if p["emits"]:
                o.append("            (Self::I%d(p), %d) => p.cached_%s().map(|o| o.map(|v| v.to_val())).map_err(|e| e.to_string()),\n" % (p["iface"], p["idx"], p["rust"]))
        o.append('            _ => Ok(None),\n        }\n    }\n\n')
        # signals
        if blocking:
            o.append("    pub fn subscribe(&self, idx: usize) -> zbus::Result<SigIter> {\n        match (self, idx) {\n")
        else:
            o.append("    pub async fn subscribe(&self, idx: usize) -> zbus::Result<SigStream> {\n        match (self, idx) {\n")
        for s in ss:
            n = len(s["shape"])
            if n == 0:
                body = "Ok(vec![])"
            else:
                body = "m.args().map(|a| vec![%s]).map_err(|e| e.to_string())" % ", ".join("a.a%d().to_val()" % i for i in range(n))
            if blocking:
                o.append("            (Self::I%d(p), %d) => Ok(Box::new(p.receive_%s()?.map(|m| %s))),\n" % (s["iface"], s["idx"], s["rust"], body))
            else:
                o.append("            (Self::I%d(p), %d) => Ok(Box::pin(p.receive_%s().await?.map(|m| %s))),\n" % (s["iface"], s["idx"], s["rust"], body))
        o.append('            _ => panic!("bank: no such signal"),\n        }\n    }\n}\n\n')

    # emit glue
    o.append("/// Emit signal `idx` of interface `iface` registered at `path`. Route 0: the interface's\n/// associated function with a fresh `SignalEmitter`; route 1: through `InterfaceRef` and the\n/// generated `*Signals` trait.\n")
    o.append("pub async fn emit_signal(server: &zbus::Connection, path: &str, iface: usize, idx: usize, args: &[Val], route: u8) -> zbus::Result<()> {\n")
    o.append("    let path = path.to_string();\n    match (iface, idx, route) {\n")
    for s in ss:
        j = s["iface"]
        pre, a = sig_emit_args(s)
        o.append("        (%d, %d, 0) => { %slet em = SignalEmitter::new(server, path)?; I%d::%s(&em%s).await }\n" % (
            j, s["idx"], pre, j, s["rust"], (", " + a) if a else ""))
        o.append("        (%d, %d, _) => { %slet r = server.object_server().interface::<_, I%d>(path).await?; I%dSignals::%s(&r%s).await }\n" % (
            j, s["idx"], pre, j, j, s["rust"], (", " + a) if a else ""))
    o.append('        _ => panic!("bank: no such signal"),\n    }\n}\n\n')

    # emit property-changed glue
    o.append("/// Emit `PropertiesChanged` for property `idx` (only for properties that emit).\n")
    o.append("pub async fn emit_prop_changed(server: &zbus::Connection, path: &str, iface: usize, idx: usize) -> zbus::Result<()> {\n    let path = path.to_string();\n    match (iface, idx) {\n")
    for p in ps:
        if p["emits"]:
            j = p["iface"]
            if p["named"]:
                # the name of the generated `<prop>_changed` helper is derived from the D-Bus name,
                # i.e. from behaviour under test: emit by hand so that the harness compiles
                # whatever the macro makes of explicit names
                o.append("        (%d, %d) => { let r = server.object_server().interface::<_, I%d>(path).await?; let g = r.get().await; let v = zbus::zvariant::Value::from(g.%s()%s); let mut m = std::collections::HashMap::new(); m.insert(%s, v); zbus::fdo::Properties::properties_changed(r.signal_emitter(), zbus::names::InterfaceName::from_static_str_unchecked(\"x.bank.I%d\"), m, std::borrow::Cow::Borrowed(&[])).await }\n" % (j, p["idx"], j, p["rust"], ".await" if p["async_get"] else "", rust_str(p["name"]), j))
            else:
                o.append("        (%d, %d) => { let r = server.object_server().interface::<_, I%d>(path).await?; let g = r.get().await; g.%s_changed(r.signal_emitter()).await }\n" % (j, p["idx"], j, p["rust"]))
    o.append('        _ => panic!("bank: property does not emit"),\n    }\n}\n')
    return "".join(o)


def main():
    text = gen()
    if "--check" in sys.argv:
        cur = open(OUT).read() if os.path.exists(OUT) else ""
        sys.exit(0 if cur == text else 1)
    with open(OUT, "w") as f:
        f.write(text)
    print("wrote %s (%d bytes)" % (os.path.normpath(OUT), len(text)))


if __name__ == "__main__":
    main()
